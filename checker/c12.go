package main

import (
	"fmt"
	"go/ast"
	"go/constant"
	"go/token"
	"go/types"
	"sort"
	"strings"
)

func init() { register("C12", rulesC12, nil) }

// leafMatcher decides one kind of condition leaf in a scenario.
type leafMatcher func(f *Func, e ast.Expr) (tri, bool)

func anyOf(ms ...leafMatcher) func(*Func) func(ast.Expr) tri {
	return func(f *Func) func(ast.Expr) tri {
		return func(e ast.Expr) tri {
			e = ast.Unparen(e)
			for _, m := range ms {
				if v, ok := m(f, e); ok {
					return v
				}
			}
			return triUnknown
		}
	}
}

// fieldIs: a selector whose final field is named name evaluates to v.
func fieldIs(name string, v tri) leafMatcher {
	return func(f *Func, e ast.Expr) (tri, bool) {
		s, ok := e.(*ast.SelectorExpr)
		if ok && s.Sel.Name == name {
			if o, isV := f.ObjOf(s).(*types.Var); isV && o.IsField() {
				return v, true
			}
		}
		return 0, false
	}
}

// debugFlagOff: `<package-level var> != "1"` is true, `== "1"` is false (default MCPGODEBUG).
func debugFlagOff() leafMatcher {
	return func(f *Func, e ast.Expr) (tri, bool) {
		x, y, op, ok := binaryCmp(e)
		if !ok {
			return 0, false
		}
		v, isV := f.ObjOf(x).(*types.Var)
		s, isC := f.ConstString(y)
		if isV && v.Pkg() != nil && v.Parent() == v.Pkg().Scope() && isC && s == "1" {
			if op == token.NEQ {
				return triTrue, true
			}
			if op == token.EQL {
				return triFalse, true
			}
		}
		return 0, false
	}
}

// identIs: identifier named name evaluates to v.
func identIs(name string, v tri) leafMatcher {
	return func(f *Func, e ast.Expr) (tri, bool) {
		if id, ok := e.(*ast.Ident); ok && id.Name == name {
			return v, true
		}
		return 0, false
	}
}

// nilTestOf: x != nil / x == nil where x's printed form contains sub.
func nilTestOf(sub string, isNil tri) leafMatcher {
	return func(f *Func, e ast.Expr) (tri, bool) {
		x, twn, ok := NilTest(e)
		if !ok || !strings.Contains(exprStr(x), sub) {
			return 0, false
		}
		if twn {
			return isNil, true
		}
		return triNot(isNil), true
	}
}

// callIs: a call of a function named fn whose first argument's printed form contains argSub.
func callIs(fn, argSub string, v tri) leafMatcher {
	return func(f *Func, e ast.Expr) (tri, bool) {
		ce, ok := e.(*ast.CallExpr)
		if !ok {
			return 0, false
		}
		c := f.Callee(ce)
		if c == nil || c.Name() != fn {
			return 0, false
		}
		if argSub != "" && (len(ce.Args) == 0 || !strings.Contains(exprStr(ce.Args[0]), argSub)) {
			return 0, false
		}
		return v, true
	}
}

// cmpIs: comparison `lhsSub OP rhs` (lhs printed form contains lhsSub) with the given operator.
func cmpIs(lhsSub string, op token.Token, v tri) leafMatcher {
	return func(f *Func, e ast.Expr) (tri, bool) {
		x, _, o, ok := binaryCmp(e)
		if ok && o == op && strings.Contains(exprStr(x), lhsSub) {
			return v, true
		}
		return 0, false
	}
}

// gateScenario checks that under the abstract valuation none of the `forbidden` vertices is reachable
// and that every reachable return is preceded by an HTTP status in wantStatus.
func (c *Ctx) gateScenario(f *Func, key string, leaf func(ast.Expr) tri, forbidden []int, wantStatus []int64, why string) {
	g := f.Graph()
	seen := g.ReachUnder(leaf, nil)
	c.paths++
	for _, v := range forbidden {
		if seen[v] {
			c.Fail(key, f, g.Node(v), "%s: the request still reaches %s under this scenario", why, exprStr(asExprStmt(g.Node(v))))
			return
		}
	}
	// statuses written on reachable paths
	got := map[int64]bool{}
	for v := 0; v < g.N; v++ {
		if seen[v] && g.Node(v) != nil {
			if st := c.httpStatusIn(f, g.Node(v)); st != 0 {
				got[st] = true
			}
			wj := c.P.LookupFuncObj(pM, "", "writeJSONRPCError")
			for _, call := range f.CallsIn(g.Node(v), wj, false) {
				if st, ok := f.ConstInt(call.Args[1]); ok {
					got[st] = true
				}
			}
		}
	}
	okStatus := false
	for _, w := range wantStatus {
		if got[w] {
			okStatus = true
		}
	}
	var gs []int64
	for k := range got {
		gs = append(gs, k)
	}
	sort.Slice(gs, func(i, j int) bool { return gs[i] < gs[j] })
	c.Check(okStatus, key, f, nil, "%s: dispatch unreachable; reachable statuses %v (expected one of %v)", why, gs, wantStatus)
	// … and the rejection is actually said: under the scenario no return is reachable without passing some statement that
	// writes an HTTP status or a JSON-RPC error response (a silent return would answer 200 with an empty body)
	wj := c.P.LookupFuncObj(pM, "", "writeJSONRPCError")
	says := func(v int) bool {
		n := g.Node(v)
		if n == nil {
			return false
		}
		if c.httpStatusIn(f, n) != 0 {
			return true
		}
		for _, call := range f.AllCalls(n, false) {
			if fn := f.Callee(call); fn != nil {
				switch {
				case wj != nil && f.IsCallTo(call, wj):
					return true
				case fn.Name() == "Error" && fn.Pkg() != nil && fn.Pkg().Path() == "net/http":
					return true
				case fn.Name() == "WriteHeader" || fn.Name() == "ServeHTTP" || strings.HasPrefix(fn.Name(), "write") || strings.HasPrefix(fn.Name(), "serve"):
					return true // non-constant status / delegated response
				}
			}
		}
		return false
	}
	quiet := g.ReachUnder(leaf, says)
	for _, x := range g.Exits {
		if quiet[x] && !says(x) {
			c.Fail(key+":silent-return", f, g.Node(x), "%s: this return is reachable without any status having been written", why)
			return
		}
	}
}

func asExprStmt(n ast.Node) ast.Expr {
	switch x := n.(type) {
	case *ast.ExprStmt:
		return x.X
	case ast.Expr:
		return x
	case *ast.SendStmt:
		return x.Chan
	case *ast.DeferStmt:
		return x.Call
	}
	return nil
}

func rulesC12(c *Ctx) {
	c.Import("R-C12-12", "the loopback-Host precondition rests on util.IsLoopback meaning exactly localhost or a loopback address", "C15", "R-C15-7", nil)
	c.Rule("R-C12-1", "every documented HTTP precondition gate lies on all paths to the hand-off: with the violating condition true, no path reaches the transport/session and the mandated status is written", func() {
		// --- StreamableHTTPHandler.ServeHTTP
		sh := c.Fn(pM, "StreamableHTTPHandler", "ServeHTTP")
		g := sh.Graph()
		var dispatch []int
		for _, n := range []string{"serveStateless", "serveStateful"} {
			dispatch = append(dispatch, g.callVertices(c.FnObj(pM, "StreamableHTTPHandler", n))...)
		}
		c.Pin("ServeHTTP dispatch calls", len(dispatch), 2)
		// locals by role (never by name): the listener address and its comma-ok come from the type assertion to net.Addr,
		// the declared version from Header.Get(protocolVersionHeader), the cross-origin error from the Check call
		loopOf := func(f *Func, hostLoopback tri) []leafMatcher {
			addr, okv := typeAssertVars(f, "net", "Addr")
			return []leafMatcher{fieldIs("DisableLocalhostProtection", triFalse), debugFlagOff(), objIs(okv, triTrue), nilObj(addr, triFalse),
				callArgMentions("IsLoopback", addr, triTrue), callArgField("IsLoopback", "Host", hostLoopback)}
		}
		addrSH, _ := typeAssertVars(sh, "net", "Addr")
		pvVar := sh.VarFromCallWhere(func(ce *ast.CallExpr) bool {
			fn := sh.Callee(ce)
			return fn != nil && fn.Name() == "Get" && len(ce.Args) == 1 && sh.ObjOf(ce.Args[0]) == c.Obj(pM, "protocolVersionHeader")
		}, 0)
		coErr := sh.VarFromCallNamed("Check", 0)
		c.Need(addrSH != nil && pvVar != nil && coErr != nil, "ServeHTTP: listener address, declared version and cross-origin error variables")
		c.gateScenario(sh, "streamable:loopback-listener-foreign-Host", anyOf(loopOf(sh, triFalse)...)(sh), dispatch, []int64{403}, "loopback-bound listener, non-loopback Host")
		c.gateScenario(sh, "streamable:cross-origin-check-fails", anyOf(nilTestOf("CrossOriginProtection", triFalse), nilObj(coErr, triFalse), callArgMentions("IsLoopback", addrSH, triFalse))(sh), dispatch, []int64{403}, "CrossOriginProtection.Check fails")
		c.gateScenario(sh, "streamable:unsupported-version-header", anyOf(cmpObj(pvVar, token.NEQ, triTrue), callIs("Contains", "supportedProtocolVersions", triFalse), cmpObj(pvVar, token.LSS, triTrue),
			callArgMentions("IsLoopback", addrSH, triFalse), nilTestOf("CrossOriginProtection", triTrue))(sh), dispatch, []int64{400}, "declared legacy protocol version not supported")
		// body limit: every path to dispatch passes the MaxBytesReader wrap when the limit is positive
		var wrap = -1
		for _, w := range Writes(sh.Body, false) {
			if ce, ok := ast.Unparen(w.RHS).(*ast.CallExpr); ok && w.RHS != nil && sh.Callee(ce) != nil && sh.Callee(ce).Name() == "MaxBytesReader" {
				wrap = g.VertexOf(w.Stmt)
			}
		}
		c.Need(wrap >= 0, "ServeHTTP: req.Body = http.MaxBytesReader(...)")
		// the scenario by evaluation: a positive limit and a request that has a body whose length is not declared up front
		// (chunked transfer, HTTP/2 without content-length: ContentLength is -1, Body is neither nil nor http.NoBody) — the
		// requests for which the reader is the only bound there is
		bodyLeaf0 := anyOf(nilTestOf("Body", triFalse), cmpIs("MaxRequestBodyBytes", token.GTR, triTrue))(sh)
		bodyLeaf := func(e ast.Expr) tri {
			if t := bodyLeaf0(e); t != triUnknown {
				return t
			}
			x, y, op, ok := binaryCmp(e)
			if !ok {
				return triUnknown
			}
			cmp := func(l, r int64) tri {
				var res bool
				switch op {
				case token.EQL:
					res = l == r
				case token.NEQ:
					res = l != r
				case token.LSS:
					res = l < r
				case token.LEQ:
					res = l <= r
				case token.GTR:
					res = l > r
				case token.GEQ:
					res = l >= r
				default:
					return triUnknown
				}
				if res {
					return triTrue
				}
				return triFalse
			}
			role := func(e ast.Expr) string { return exprStr(sh.valueOf(e)) }
			if o := sh.ObjOf(y); o != nil && o.Pkg() != nil && o.Pkg().Path() == "net/http" && o.Name() == "NoBody" && strings.HasSuffix(role(x), ".Body") {
				return cmp(1, 0) // the body is not the no-body sentinel
			}
			if o := sh.ObjOf(x); o != nil && o.Pkg() != nil && o.Pkg().Path() == "net/http" && o.Name() == "NoBody" && strings.HasSuffix(role(y), ".Body") {
				return cmp(0, 1)
			}
			val := func(e ast.Expr) (int64, bool) {
				if z, isZ := sh.ConstInt(e); isZ {
					return z, true
				}
				r := role(e)
				switch {
				case strings.HasSuffix(r, ".MaxRequestBodyBytes"):
					return 4 << 20, true
				case strings.HasSuffix(r, ".ContentLength"):
					return -1, true
				}
				return 0, false
			}
			l, okL := val(x)
			r, okR := val(y)
			if okL && okR {
				return cmp(l, r)
			}
			return triUnknown
		}
		seen := g.ReachUnder(bodyLeaf, func(v int) bool { return v == wrap })
		okWrap := true
		for _, d := range dispatch {
			if seen[d] {
				okWrap = false
			}
		}
		c.Check(okWrap, "streamable:body-limit-applied", sh, g.Node(wrap), "with a positive MaxRequestBodyBytes every path to the handlers wraps the body in http.MaxBytesReader first")
		// the limit is positive by default: the constructor replaces 0 by DefaultMaxRequestBodyBytes on every path, also when
		// it was given no options at all (a nil *StreamableHTTPOptions must not mean "unlimited")
		nh := c.Fn(pM, "", "NewStreamableHTTPHandler")
		ng := nh.Graph()
		maxF := c.Field(pM, "StreamableHTTPOptions", "MaxRequestBodyBytes")
		def := c.Obj(pM, "DefaultMaxRequestBodyBytes")
		okDef := false
		for _, w := range Writes(nh.Body, false) {
			if !nh.IsField(w.LHS, maxF) || w.RHS == nil || nh.ObjOf(w.RHS) != def {
				continue
			}
			wv := ng.VertexOf(w.Stmt)
			only := true
			nz := false
			for _, a := range ng.GuardsAt(wv) {
				if isCompound(a.E) {
					continue
				}
				if x, y, op, isCmp := binaryCmp(a.E); isCmp && op == token.EQL && a.Val && nh.IsField(x, maxF) {
					if z, isZ := nh.ConstInt(y); isZ && z == 0 {
						nz = true
						continue
					}
				}
				only = false
			}
			// the test itself is reached on every path
			reached := false
			for _, cv := range ng.condVertices() {
				if x, _, _, isCmp := binaryCmp(ng.Node(cv - 1).(ast.Expr)); isCmp && nh.IsField(x, maxF) {
					reached, _ = ng.MustPass(ng.Entry, ng.Exits, func(v int) bool { return v == cv-1 })
				}
			}
			okDef = only && nz && reached
		}
		c.Check(okDef, "streamable:body-limit-default", nh, nil, "NewStreamableHTTPHandler sets MaxRequestBodyBytes = DefaultMaxRequestBodyBytes whenever it is 0, on every path and on no other condition")

		// --- content type / accept gates
		for _, name := range []string{"serveStateless", "serveStatefulPOST"} {
			f := c.Fn(pM, "StreamableHTTPHandler", name)
			fg := f.Graph()
			var tgt []int
			for v := 0; v < fg.N; v++ {
				if n := fg.Node(v); n != nil {
					for _, call := range f.AllCalls(n, false) {
						if fn := f.Callee(call); fn != nil && fn.Name() == "ServeHTTP" {
							tgt = append(tgt, v)
						}
					}
				}
			}
			c.Need(len(tgt) >= 1, name+": transport.ServeHTTP")
			sa := c.FnObj(pM, "", "streamableAccepts")
			jsonOK, streamOK := f.VarFromCall(sa, 0), f.VarFromCall(sa, 1)
			c.Need(jsonOK != nil && streamOK != nil, name+": jsonOK, streamOK := streamableAccepts(...)")
			post := []leafMatcher{methodIs("POST"), objIs(compatFlagVar(f), triFalse)}
			c.gateScenario(f, name+":wrong-content-type", anyOf(append(post, debugFlagOff(), cmpIs("baseMediaType", token.NEQ, triTrue))...)(f), tgt, []int64{415}, "POST Content-Type is not application/json")
			c.gateScenario(f, name+":accept-lacks-json", anyOf(append(post, debugFlagOff(), cmpIs("baseMediaType", token.NEQ, triFalse), objIs(jsonOK, triFalse))...)(f), tgt, []int64{400}, "Accept does not admit application/json")
			c.gateScenario(f, name+":accept-lacks-event-stream", anyOf(append(post, debugFlagOff(), cmpIs("baseMediaType", token.NEQ, triFalse), objIs(jsonOK, triTrue), objIs(streamOK, triFalse))...)(f), tgt, []int64{400}, "Accept does not admit text/event-stream")
		}
		gf := c.Fn(pM, "StreamableHTTPHandler", "serveStatefulGET")
		gg := gf.Graph()
		var gt []int
		for v := 0; v < gg.N; v++ {
			if n := gg.Node(v); n != nil {
				for _, call := range gf.AllCalls(n, false) {
					if fn := gf.Callee(call); fn != nil && fn.Name() == "ServeHTTP" {
						gt = append(gt, v)
					}
				}
			}
		}
		c.gateScenario(gf, "serveStatefulGET:accept-lacks-event-stream", anyOf(objIs(gf.VarFromCall(c.FnObj(pM, "", "streamableAccepts"), 1), triFalse))(gf), gt, []int64{400}, "GET Accept does not admit text/event-stream")

		// --- servePOST body gates
		sp := c.Fn(pM, "streamableServerConn", "servePOST")
		spg := sp.Graph()
		sends := sendVertices(sp, spg, c.Field(pM, "streamableServerConn", "incoming"))
		c.Pin("servePOST publish sites", len(sends), 2)
		bodyVar, readErr := sp.VarFromCallNamed("ReadAll", 0), sp.VarFromCallNamed("ReadAll", 1)
		c.Need(bodyVar != nil && readErr != nil, "servePOST: body, err := io.ReadAll(req.Body)")
		c.gateScenario(sp, "servePOST:body-too-large", anyOf(cmpIs("Values", token.GTR, triFalse), nilObj(readErr, triFalse), callArgMentions("As", readErr, triTrue))(sp), sends, []int64{413}, "body exceeds the limit (MaxBytesError)")
		c.gateScenario(sp, "servePOST:empty-body", anyOf(cmpIs("Values", token.GTR, triFalse), nilObj(readErr, triTrue), lenCmpObj(bodyVar, token.EQL, triTrue))(sp), sends, []int64{400}, "empty body")
		// header mirror: validateMcpHeaders error → 400 + -32020 and nothing published
		vmh := c.FnObj(pM, "", "validateMcpHeaders")
		vv := spg.callVertices(vmh)
		c.Need(len(vv) == 1, "servePOST: validateMcpHeaders")
		var verr types.Object
		for _, w := range Writes(spg.Node(vv[0]), false) {
			verr = sp.ObjOf(w.LHS)
		}
		okMirror := false
		for _, cv := range spg.condVertices() {
			cond := spg.Node(cv - 1).(ast.Expr)
			if x, twn, ok := NilTest(cond); ok && !twn && sp.ObjOf(x) == verr && verr != nil {
				t, _ := spg.BranchTargets(cv - 1)
				seen, _ := spg.reach([]int{t}, nil, nil)
				pub, code, status := false, false, false
				for v := 0; v < spg.N; v++ {
					if !seen[v] && v != t {
						continue
					}
					for _, s := range sends {
						if s == v {
							pub = true
						}
					}
					if n := spg.Node(v); n != nil {
						if c.httpStatusIn(sp, n) == 400 {
							status = true
						}
						for _, call := range sp.CallsIn(n, c.P.LookupFuncObj(pM, "", "writeJSONRPCError"), false) {
							if st, ok := sp.ConstInt(call.Args[1]); ok && st == 400 {
								status = true // the helper that writes status and JSON-RPC error in one go
							}
						}
						ast.Inspect(n, func(x ast.Node) bool {
							if id, ok := x.(*ast.Ident); ok && sp.ObjOf(id) == c.Obj(pM, "CodeHeaderMismatch") {
								code = true
							}
							return true
						})
					}
				}
				okMirror = !pub && code && status
			}
		}
		c.Check(okMirror, "servePOST:header-mirror-mismatch", sp, spg.Node(vv[0]), "a validateMcpHeaders error is answered 400 with error -32020 and the message is not published")
		// ... and the validation applies to every single (non-batch) message, calls and notifications alike
		verrM := func(f *Func, e ast.Expr) (tri, bool) {
			if x, twn, ok := NilTest(e); ok && f.ObjOf(x) == verr {
				if twn {
					return triFalse, true
				}
				return triTrue, true
			}
			return 0, false
		}
		rb := c.FnObj(pM, "", "readBatch")
		c.gateScenario(sp, "servePOST:single-message-with-bad-mirror-headers", anyOf(objIs(sp.VarFromCall(rb, 1), triFalse), lenCmpObj(sp.VarFromCall(rb, 0), token.EQL, triTrue), verrM)(sp), sends, []int64{400}, "a single message whose Mcp-* headers do not mirror the body")
		// validateMcpHeaders covers every non-batch single message; all publish sites come after it
		for i, s := range sends {
			c.Check(spg.ReachableFrom(vv[0])[s] && !spg.ReachableFrom(s)[vv[0]], "servePOST:publish#"+itoa(i)+"-after-header-validation", sp, spg.Node(s), "publication happens after header validation")
		}
		// per-request version mirror tests
		wj := c.FnObj(pM, "", "writeJSONRPCError")
		codes := map[string]int{}
		for _, call := range sp.CallsIn(sp.Body, wj, false) {
			v := spg.VertexOf(call)
			pre := true
			for _, s := range sends {
				if spg.ReachableFrom(s)[v] {
					pre = false
				}
			}
			// and after writing, return without publishing
			okRet, _ := spg.MustPass(v, sends, func(int) bool { return false })
			code := errorCodeOf(sp, call.Args[3])
			if pre && okRet {
				codes[code]++
			} else if code != "-32600" { // the duplicate-id rejection sits between the two publish loops, by design
				c.Fail("servePOST:reject-site:"+code, sp, call, "a rejection that is written after publication or does not return")
			}
		}
		c.Check(codes["-32020"] >= 2 && codes["-32602"] >= 1 && codes["-32022"] >= 1 && codes["-32601"] >= 1, "servePOST:version-mirror-rejections", sp, nil,
			"before publication: header/_meta version mismatch or missing header → -32020 (×%d), missing _meta version → -32602 (×%d), stateful endpoint → -32022 (×%d), unknown method under 2026-07-28 → -32601 (×%d); each returns without publishing", codes["-32020"], codes["-32602"], codes["-32022"], codes["-32601"])

		// the gate that decides whether the mirror tests apply must see the body's own _meta version
		erm := c.FnObj(pM, "", "extractRequestMeta")
		okGate := false
		for _, cv := range spg.condVertices() {
			cond := spg.Node(cv - 1).(ast.Expr)
			b, isB := ast.Unparen(cond).(*ast.BinaryExpr)
			if !isB || b.Op != token.LOR {
				continue
			}
			_, y, op, ok1 := binaryCmp(b.X)
			mx, my, mop, ok2 := binaryCmp(b.Y)
			if !(ok1 && ok2 && op == token.GEQ && sp.ObjOf(y) == c.Obj(pM, "protocolVersion20260728") && mop == token.NEQ) {
				continue
			}
			if s, isC := sp.ConstString(my); !isC || s != "" {
				continue
			}
			metaVar := sp.ObjOf(mx)
			// metaVersion is assigned from the body's _meta on a path that is not conditioned on the header version
			for _, ev := range spg.callVertices(erm) {
				if !spg.Dominates(ev, cv-1) {
					continue
				}
				for _, w := range sp.writesToVar(sp.Body, metaVar, false) {
					if _, isDecl := w.(*ast.ValueSpec); isDecl {
						continue
					}
					wg := spg.GuardsAt(spg.VertexOf(w))
					base := map[string]bool{}
					for _, a := range spg.GuardsAt(ev) {
						base[a.String()] = true
					}
					clean := true
					for _, a := range wg {
						// a guard acquired after reading the body's _meta must not involve the header version
						if !base[a.String()] && strings.Contains(exprStr(a.E), "protocolVersion") {
							clean = false
						}
					}
					// ... and reading the body's _meta is itself not conditioned on the header version
					for _, a := range spg.GuardsAt(ev) {
						if x, y, op, ok := binaryCmp(a.E); ok && (op == token.GEQ || op == token.LSS) && strings.Contains(exprStr(x), "protocolVersion") && sp.ObjOf(y) == c.Obj(pM, "protocolVersion20260728") {
							clean = false
						}
					}
					if clean && spg.Dominates(ev, spg.VertexOf(w)) {
						okGate = true
					}
				}
			}
		}
		// what is compared with the body's version is the header as the client sent it — read again from the context, where an
		// absent header is the empty string — not the local that was defaulted to 2025-03-26 for other purposes (with the
		// default, a body that names exactly that version passes the "header required" test without a header)
		{
			pvc := c.FnObj(pM, "", "protocolVersionFromContext")
			nCmp := 0
			for _, cv := range spg.condVertices() {
				cond := spg.Node(cv - 1).(ast.Expr)
				ast.Inspect(cond, func(n ast.Node) bool {
					b, isB := n.(*ast.BinaryExpr)
					if !isB || (b.Op != token.NEQ && b.Op != token.EQL) {
						return true
					}
					// a comparison of two string locals one of which is the body's _meta version
					var other ast.Expr
					for _, pair := range [][2]ast.Expr{{b.X, b.Y}, {b.Y, b.X}} {
						if id, isID := ast.Unparen(pair[0]).(*ast.Ident); isID {
							for _, w := range Writes(sp.Body, true) {
								if sp.ObjOf(w.LHS) != sp.ObjOf(id) {
									continue
								}
								if as, isAs := w.Stmt.(*ast.AssignStmt); isAs {
									for _, r := range as.Rhs {
										if strings.Contains(exprStr(r), "MetaKeyProtocolVersion") {
											other = pair[1]
										}
									}
								}
							}
						}
					}
					oid, isID := ast.Unparen(other).(*ast.Ident)
					if other == nil || !isID || sp.ObjOf(oid) == nil {
						return true
					}
					if _, isVar := sp.ObjOf(oid).(*types.Var); !isVar {
						return true
					}
					nCmp++
					okRaw := true
					nW := 0
					for _, w := range Writes(sp.Body, true) {
						if sp.ObjOf(w.LHS) != sp.ObjOf(oid) {
							continue
						}
						nW++
						ce, isC := ast.Unparen(w.RHS).(*ast.CallExpr)
						if !isC || !sp.IsCallTo(ce, pvc) {
							okRaw = false
						}
					}
					c.Check(okRaw && nW >= 1, "servePOST:header-version-is-the-raw-header#"+itoa(nCmp), sp, b, "the version compared with the body's _meta version is protocolVersionFromContext(...) itself (%d assignments)", nW)
					return true
				})
			}
			c.Pin("header/body version comparisons in servePOST", nCmp, 1)
		}
		c.Check(okGate, "servePOST:mirror-gate-reads-body-meta", sp, nil, "the header/body version cross-check is triggered by `header >= 2026-07-28 || _meta.protocolVersion != \"\"`, with the body's _meta version read unconditionally: a body that declares the new protocol cannot bypass the Mcp-* mirror checks by omitting or lowering the header")

		// --- SSE handler
		sse := c.Fn(pM, "SSEHandler", "ServeHTTP")
		sg := sse.Graph()
		var st []int
		for v := 0; v < sg.N; v++ {
			if n := sg.Node(v); n != nil {
				for _, call := range sse.AllCalls(n, false) {
					if fn := sse.Callee(call); fn != nil && fn.Name() == "ServeHTTP" {
						st = append(st, v)
					}
				}
			}
		}
		c.Need(len(st) == 1, "SSEHandler: session.ServeHTTP")
		addrSSE, _ := typeAssertVars(sse, "net", "Addr")
		// the loopback gate handed to a function of the package (shared with the other handler): the function is given the
		// writer and the request, holds the net.Addr assertion, and its boolean result decides whether the handler goes on.
		// Decided in two halves: under the scenario the function answers 403 and every return it reaches reports true; in
		// the handler, with that call true, the hand-off to the session is unreachable.
		var gateFn *Func
		var gateCall *ast.CallExpr
		if addrSSE == nil {
			for _, call := range sse.AllCalls(sse.Body, false) {
				fn := sse.Callee(call)
				if fn == nil {
					continue
				}
				h := c.P.FuncOf(fn)
				if h == nil || h.Body == nil {
					continue
				}
				if a, _ := typeAssertVars(h, "net", "Addr"); a != nil {
					gateFn, gateCall = h, call
				}
			}
		}
		passGate := leafMatcher(func(f *Func, e ast.Expr) (tri, bool) { return 0, false })
		if gateFn != nil {
			key, why := "sse:loopback-listener-foreign-Host", "loopback-bound listener, non-loopback Host"
			ms := loopOf(gateFn, triFalse)
			for i, p := range gateFn.NonRecvParams() {
				if i < len(gateCall.Args) {
					if sel, ok := ast.Unparen(gateCall.Args[i]).(*ast.SelectorExpr); ok && sel.Sel.Name == "DisableLocalhostProtection" {
						ms = append(ms, objIs(p, triFalse))
					}
				}
			}
			leafH := anyOf(ms...)(gateFn)
			hg := gateFn.Graph()
			seenH := hg.ReachUnder(leafH, nil)
			// whichever way round the result is read ("rejected" or "may proceed"): under the scenario every return that
			// can be reached reports one and the same constant
			okH, have, refused := true, false, false
			for _, x := range hg.Exits {
				if !seenH[x] {
					continue
				}
				r, isR := hg.Node(x).(*ast.ReturnStmt)
				same := false
				if isR && len(r.Results) == 1 {
					if b, isC := gateFn.ConstBool(r.Results[0]); isC && (!have || b == refused) {
						same, have, refused = true, true, b
					}
				}
				if !same {
					okH = false
					c.Fail(key, gateFn, hg.Node(x), "%s: %s, to which the handler hands the gate, does not report one definite answer under this scenario (this return differs from the refusal)", why, gateFn.Name())
					break
				}
			}
			if okH && !have {
				okH = false
				c.Fail(key, gateFn, nil, "%s: no return of %s is reachable under this scenario", why, gateFn.Name())
			}
			says, goesOn := triTrue, triFalse
			if !refused {
				says, goesOn = triFalse, triTrue
			}
			if okH {
				c.gateScenario(gateFn, key, leafH, nil, []int64{403}, why)
				seenS := sg.ReachUnder(anyOf(callIs(gateFn.Obj.Name(), "", says), fieldIs("DisableLocalhostProtection", triFalse))(sse), nil)
				c.Check(!seenS[st[0]], key+":handler-stops", sse, gateCall, "%s: when %s reports the refusal (%v) the handler does not go on to the session", why, gateFn.Name(), refused)
			}
			passGate = callIs(gateFn.Obj.Name(), "", goesOn)
		} else {
			c.gateScenario(sse, "sse:loopback-listener-foreign-Host", anyOf(loopOf(sse, triFalse)...)(sse), st, []int64{403}, "loopback-bound listener, non-loopback Host")
		}
		c.gateScenario(sse, "sse:wrong-content-type", anyOf(passGate, debugFlagOff(), cmpPath("Request.Method", token.EQL, triTrue), callArgMentions("IsLoopback", addrSSE, triFalse), cmpObj(sse.VarFromCallNamed("ParseMediaType", 0), token.NEQ, triTrue), cmpIs("baseMediaType", token.NEQ, triTrue))(sse), st, []int64{415}, "POST Content-Type is not application/json")
	})

	c.Rule("R-C12-2", "the server validates exactly the mirror headers the client sets (Mcp-Method, Mcp-Name for the same methods, Mcp-Param-* from the same annotations)", func() {
		set := c.Fn(pM, "", "setStandardHeaders")
		gen := c.Fn(pM, "", "generateParamHeaders")
		val := c.Fn(pM, "", "validateMcpHeaders")
		vph := c.Fn(pM, "", "validateParamHeaders")
		hdrConsts := func(fs ...*Func) map[string]bool {
			out := map[string]bool{}
			for _, f := range fs {
				ast.Inspect(f.Body, func(n ast.Node) bool {
					if id, ok := n.(*ast.Ident); ok {
						if cst, ok := f.Info().Uses[id].(*types.Const); ok && strings.HasSuffix(cst.Name(), "Header") || ok && cst.Name() == "paramHeaderPrefix" {
							out[cst.Name()] = true
						}
					}
					return true
				})
			}
			return out
		}
		cs, ss := hdrConsts(set, gen), hdrConsts(val, vph)
		for _, h := range []string{"methodHeader", "nameHeader", "paramHeaderPrefix", "protocolVersionHeader"} {
			c.Check(cs[h] && ss[h], "mirror-header:"+h, set, nil, "%s is used by both the client setter and the server validator (client=%v server=%v)", h, cs[h], ss[h])
		}
		for _, helper := range []string{"extractParamHeaderAnnotations", "lookupArgument", "unmarshalPrimitive"} {
			o := c.FnObj(pM, "", helper)
			c.Check(len(gen.CallsIn(gen.Body, o, false)) > 0 && len(vph.CallsIn(vph.Body, o, false)) > 0, "shared-helper:"+helper, gen, nil, "client and server derive header bindings/values with the same helper %s", helper)
		}
		// ... and both derive them from the tool they were given for this message, every time: the bindings they iterate over
		// are assigned from extractParamHeaderAnnotations(tool) and from nothing else (a memoised answer belongs to the schema
		// the tool had when it was first seen; the same *Tool can be registered again with another schema)
		epa := c.FnObj(pM, "", "extractParamHeaderAnnotations")
		for _, f := range []*Func{gen, vph} {
			toolP := f.ParamWhere(func(t types.Type) bool {
				pt, ok := t.(*types.Pointer)
				return ok && isNamedType(pt.Elem(), modPath+"/"+pM, "Tool")
			})
			var bindings types.Object
			inspectNoLit(f.Body, func(n ast.Node) {
				if rs, ok := n.(*ast.RangeStmt); ok {
					if sl, ok := f.TypeOf(rs.X).Underlying().(*types.Slice); ok && namedOf(sl.Elem()) != nil && namedOf(sl.Elem()).Obj().Name() == "paramHeaderBinding" {
						bindings = f.ObjOf(rs.X)
					}
				}
			})
			okSrc := bindings != nil && toolP != nil
			nw := 0
			for _, w := range Writes(f.Body, false) {
				if bindings == nil || f.ObjOf(w.LHS) != bindings {
					continue
				}
				nw++
				ce, isC := ast.Unparen(w.RHS).(*ast.CallExpr)
				if !isC || !f.IsCallTo(ce, epa) || len(ce.Args) != 1 || f.ObjOf(ce.Args[0]) != types.Object(toolP) {
					okSrc = false
				}
			}
			c.Check(okSrc && nw >= 1, "bindings-derived-per-message:"+f.Name(), f, nil, "the parameter-header bindings are extractParamHeaderAnnotations(tool) of this call's tool (%d assignments)", nw)
		}
		// methods carrying Mcp-Name
		en := c.Fn(pM, "", "extractName")
		clientMethods := map[string]bool{}
		inspectNoLit(en.Body, func(n ast.Node) {
			if cc, ok := n.(*ast.CaseClause); ok {
				for _, e := range caseValues(cc) {
					if s, ok := en.ConstString(e); ok {
						clientMethods[s] = true
					}
				}
			}
		})
		serverMethods := map[string]bool{}
		vg := val.Graph()
		for _, cv := range vg.condVertices() {
			cond := vg.Node(cv - 1).(ast.Expr)
			if b, ok := ast.Unparen(cond).(*ast.BinaryExpr); ok && b.Op == token.LOR {
				var leaves []Atom
				splitAtoms(cond, false, &leaves)
				for _, a := range leaves {
					if x, y, op, ok := binaryCmp(a.E); ok && op == token.EQL && val.FieldPath(x) == "Request.Method" {
						if s, ok := val.ConstString(y); ok {
							serverMethods[s] = true
						}
					}
				}
			}
		}
		// the same set written as a switch over the method (`switch msg.Method { case a, b, c: … }`) or as nested/chained ifs
		inspectNoLit(val.Body, func(n ast.Node) {
			if sw, ok := n.(*ast.SwitchStmt); ok && sw.Tag != nil && val.FieldPath(sw.Tag) == "Request.Method" {
				for _, st := range sw.Body.List {
					for _, e := range st.(*ast.CaseClause).List {
						if s, ok := val.ConstString(e); ok {
							serverMethods[s] = true
						}
					}
				}
			}
			if is, ok := n.(*ast.IfStmt); ok {
				if x, y, op, ok := binaryCmp(is.Cond); ok && op == token.EQL && val.FieldPath(x) == "Request.Method" {
					if s, ok := val.ConstString(y); ok {
						serverMethods[s] = true
					}
				}
			}
		})
		same := len(clientMethods) == len(serverMethods) && len(clientMethods) >= 3
		for m := range clientMethods {
			if !serverMethods[m] {
				same = false
			}
		}
		c.Check(same, "Mcp-Name:method-sets-agree", val, nil, "the methods for which the client sets Mcp-Name %v are the methods for which the server requires it %v", keysOf(clientMethods), keysOf(serverMethods))
		// ordering on the client: protocol version header before the standard headers
		w := c.Fn(pM, "streamableClientConn", "Write")
		smh := c.FnObj(pM, "streamableClientConn", "setMCPHeaders")
		ssh := c.FnObj(pM, "", "setStandardHeaders")
		okOrder := false
		for _, f := range append([]*Func{w}, w.AllLits()...) {
			fg := f.Graph()
			a, b := fg.callVertices(smh), fg.callVertices(ssh)
			if len(a) == 1 && len(b) == 1 && fg.Dominates(a[0], b[0]) {
				okOrder = true
			}
		}
		c.Check(okOrder, "client:version-header-before-standard-headers", w, nil, "setMCPHeaders (which sets Mcp-Protocol-Version) dominates setStandardHeaders (which is a no-op without it)")
		// setMCPHeaders prefers the message's _meta version
		sm := c.Fn(pM, "streamableClientConn", "setMCPHeaders")
		pvm := c.FnObj(pM, "", "protocolVersionFromMessage")
		smg := sm.Graph()
		first := -1
		for _, call := range sm.AllCalls(sm.Body, false) {
			if fn := sm.Callee(call); fn != nil && fn.Name() == "Set" && len(call.Args) == 2 && sm.ObjOf(call.Args[0]) == c.Obj(pM, "protocolVersionHeader") {
				v := smg.VertexOf(call)
				if first < 0 || smg.ReachableFrom(v)[first] {
					first = v
				}
			}
		}
		metaVer := sm.VarFromCall(pvm, 0)
		okMeta := first >= 0 && metaVer != nil && hasAtom(smg.GuardsAt(first), func(a Atom) bool {
			x, y, op, ok := binaryCmp(a.E)
			s, isC := sm.ConstString(y)
			return ok && op == token.NEQ && a.Val && sm.ObjOf(x) == metaVer && isC && s == ""
		})
		pv := smg.callVertices(pvm)
		c.Check(okMeta && len(pv) == 1 && smg.Dominates(pv[0], first), "client:version-header-mirrors-meta", sm, nil, "the version header is taken from the message's _meta.protocolVersion first (so header and body agree)")
	})

	c.Rule("R-C12-9", "the client finds the definition of the tool it is about to call in any cached tools/list page: lookupTool filters the cached definitions by name and by nothing else (a definition skipped here means no Mcp-Param-* headers, which the server refuses)", func() {
		lt := c.Fn(pM, "ClientSession", "lookupTool")
		g := lt.Graph()
		nameP := lt.ParamWhere(func(t types.Type) bool { b, ok := t.Underlying().(*types.Basic); return ok && b.Kind() == types.String })
		c.Need(nameP != nil, "lookupTool: name parameter")
		nameF := c.Field(pM, "Tool", "Name")
		n := 0
		for _, r := range lt.Returns() {
			if len(r.Results) != 1 || isNilIdent(r.Results[0]) {
				continue
			}
			n++
			v := g.VertexOf(r)
			conds := g.guardingConds(v)
			okc := len(conds) == 1
			for _, cv := range conds {
				e, _ := g.node[cv].(ast.Expr)
				x, y, op, isCmp := cmpOn(e, func(x ast.Expr) bool { return lt.IsField(x, nameF) })
				if !(isCmp && x != nil && op == token.EQL && lt.ObjOf(y) == types.Object(nameP)) {
					okc = false
				}
			}
			c.Check(okc, "lookupTool:filters-by-name-only", lt, r, "the definition is returned under the name comparison and no other condition (%d guarding conditions)", len(conds))
		}
		c.Pin("lookupTool returns of a definition", n, 1)
		// every cached page is visited: the loops are over the whole cache and the whole page
		rng := 0
		ast.Inspect(lt.Body, func(x ast.Node) bool {
			if rs, ok := x.(*ast.RangeStmt); ok {
				rng++
				_, isSlice := ast.Unparen(rs.X).(*ast.SliceExpr)
				c.Check(!isSlice, "lookupTool:whole-range#"+itoa(rng), lt, rs, "ranges over the whole collection, not a sub-slice")
			}
			return true
		})
		c.Pin("lookupTool range loops", rng, 2)
	})

	ruleNoSilent200(c, "R-C12-10", []string{pM}, nil, 15, 70)
	ruleHeadersBeforeStatus(c, "R-C12-11", []string{pM}, 16)

	c.Rule("R-C12-4", "header bindings are values, not views: the path recorded for each x-mcp-header annotation is a fresh slice, never an append onto the recursion's shared prefix", func() {
		root := c.Fn(pM, "", "extractParamHeaderAnnotations")
		bindT := c.P.LookupType(pM, "paramHeaderBinding")
		c.Need(bindT != nil, "type paramHeaderBinding")
		isStrings := func(t types.Type) bool {
			sl, ok := t.Underlying().(*types.Slice)
			if !ok {
				return false
			}
			b, ok := sl.Elem().Underlying().(*types.Basic)
			return ok && b.Kind() == types.String
		}
		// is e a slice nobody else holds: make, a literal, slices.Clone/Concat, append onto nil / a literal / such a slice
		var freshExpr func(f *Func, e ast.Expr, depth int) bool
		freshExpr = func(f *Func, e ast.Expr, depth int) bool {
			e = ast.Unparen(e)
			switch x := e.(type) {
			case *ast.CompositeLit:
				return true
			case *ast.CallExpr:
				if f.BuiltinName(x) == "make" {
					return true
				}
				if fn := f.Callee(x); fn != nil && fn.Pkg() != nil && fn.Pkg().Path() == "slices" && (fn.Name() == "Clone" || fn.Name() == "Concat") {
					return true
				}
				if f.BuiltinName(x) == "append" && len(x.Args) >= 1 {
					// append onto x[:n:n] (capacity clipped to the length) always allocates
					if se, isSE := ast.Unparen(x.Args[0]).(*ast.SliceExpr); isSE && se.Slice3 && se.High != nil && se.Max != nil && exprStr(se.High) == exprStr(se.Max) && len(x.Args) >= 2 {
						return true
					}
					if ce, isC := ast.Unparen(x.Args[0]).(*ast.CallExpr); isC {
						if fn := f.Callee(ce); fn != nil && fn.Pkg() != nil && fn.Pkg().Path() == "slices" && fn.Name() == "Clip" && len(x.Args) >= 2 {
							return true
						}
					}
					return isNilIdent(x.Args[0]) || freshExpr(f, x.Args[0], depth+1)
				}
				if len(x.Args) == 1 && f.Info().Types[x.Fun].IsType() {
					return isNilIdent(x.Args[0]) || freshExpr(f, x.Args[0], depth+1) // []string(nil)
				}
			case *ast.Ident:
				if depth > 3 {
					return false
				}
				v, isVar := f.ObjOf(x).(*types.Var)
				if !isVar || v.IsField() {
					return false
				}
				for _, p := range f.Root().Params() {
					if p == v {
						return false
					}
				}
				// a local: every definition is fresh (copy(dst, …) and indexed stores fill it, they do not rebind it)
				n := 0
				for _, w := range Writes(f.Root().Body, true) {
					if f.ObjOf(w.LHS) != types.Object(v) {
						continue
					}
					if _, isIx := ast.Unparen(w.LHS).(*ast.IndexExpr); isIx {
						continue
					}
					n++
					if ce, isC := ast.Unparen(w.RHS).(*ast.CallExpr); isC && f.BuiltinName(ce) == "append" && len(ce.Args) >= 1 && f.ObjOf(ce.Args[0]) == types.Object(v) {
						continue // grows itself: as fresh as its other definitions
					}
					if vs, isVS := w.Stmt.(*ast.ValueSpec); isVS && len(vs.Values) == 0 {
						continue // var path []string: nil
					}
					if w.RHS == nil || !freshExpr(f, w.RHS, depth+1) {
						return false
					}
				}
				return n > 0
			}
			return false
		}
		nLit := 0
		for _, f := range c.pkgClosure(root) {
			ast.Inspect(f.Body, func(x ast.Node) bool {
				cl, ok := x.(*ast.CompositeLit)
				if !ok {
					return true
				}
				t := f.TypeOf(cl)
				if t == nil || !types.Identical(t, bindT) {
					return true
				}
				for i, el := range cl.Elts {
					var val ast.Expr
					if kv, isKV := el.(*ast.KeyValueExpr); isKV {
						if !isStrings(f.TypeOf(kv.Value)) {
							continue
						}
						val = kv.Value
					} else if isStrings(f.TypeOf(el)) {
						val = el
					}
					if val == nil {
						continue
					}
					_ = i
					nLit++
					c.touch(f)
					c.Check(freshExpr(f, val, 0), "binding-path-is-fresh:"+f.Name(), f, cl, "the path stored in a paramHeaderBinding (%s) is a slice nobody else holds (make+copy, slices.Clone/Concat, append onto nil or a literal): append(prefix, name) may write into the backing array shared with sibling properties — at depth >= 4 they end up with one path, and Mcp-Param-* headers are generated from / validated against the wrong argument", exprStr(val))
				}
				return true
			})
		}
		c.Pin("paramHeaderBinding literals behind extractParamHeaderAnnotations", nLit, 1)
	})

	c.Rule("R-C12-7", "the cancellation notice is a valid message of the protocol version in use: notifications/cancelled is always built from the request it cancels and inherits that request's _meta.protocolVersion / clientInfo / clientCapabilities (a notice without them is answered 400 by a 2026-07-28 server, which the streamable client treats as the end of the session)", func() {
		notify := c.FnObj(pJ, "Connection", "Notify")
		nc := c.Obj(pM, "notificationCancelled")
		c.Must(c.P.FuncOf(c.P.LookupFuncObj(pM, "", "cancelledParams")) != nil, "cancelledParams:exists", nil, nil, "notifications/cancelled is built by cancelledParams from the request it cancels (so that it inherits the per-request _meta); the builder is gone")
		cpf := c.Fn(pM, "", "cancelledParams")
		n := 0
		for _, f := range c.funcsWithLits(pM) {
			for _, call := range f.CallsIn(f.Body, notify, false) {
				if len(call.Args) != 3 || f.ObjOf(call.Args[1]) != nc {
					continue
				}
				n++
				ok := false
				of, oe := f.resolveValue(call.Args[2])
				if bc, isCall := ast.Unparen(oe).(*ast.CallExpr); isCall && of.IsCallTo(bc, cpf.Obj) && len(bc.Args) == 3 {
					// the third argument is the Params the enclosing function was given for the call being cancelled
					if pp := of.Root().ParamOfNamed(pM, "Params"); pp != nil && of.ObjOf(bc.Args[2]) == types.Object(pp) {
						ok = true
					}
				}
				c.Check(ok, "cancelled-notice-built-from-request:"+f.Name(), f, call, "the payload is cancelledParams(ctx, call, params) with the cancelled request's own params")
			}
		}
		c.Pin("notifications/cancelled senders", n, 2)
		// cancelledParams copies the three per-request keys
		want := map[types.Object]bool{c.Obj(pM, "MetaKeyProtocolVersion"): false, c.Obj(pM, "MetaKeyClientInfo"): false, c.Obj(pM, "MetaKeyClientCapabilities"): false}
		var keyVar types.Object
		inspectNoLit(cpf.Body, func(x ast.Node) {
			rs, ok := x.(*ast.RangeStmt)
			if !ok {
				return
			}
			src := cpf.valueOf(rs.X)
			if t := c.constTable(pM, cpf.ObjOf(src)); t != nil {
				src = t // a package-level table nothing writes to
			}
			cl, isLit := ast.Unparen(src).(*ast.CompositeLit)
			if !isLit {
				return
			}
			for _, e := range cl.Elts {
				if o := cpf.ObjOf(e); o != nil {
					if _, has := want[o]; has {
						want[o] = true
					}
				}
			}
			if rs.Value != nil {
				keyVar = cpf.ObjOf(rs.Value)
			}
			// body: v, ok := meta[key] … result.Meta[key] = v
			okCopy := false
			for _, w := range Writes(rs.Body, false) {
				m, k, isIx := indexOf(w.LHS)
				if isIx && cpf.ObjOf(k) == keyVar && keyVar != nil && strings.HasSuffix(cpf.FieldPath(m), "CancelledParams.Meta") && w.RHS != nil {
					src := cpf.ObjOf(w.RHS)
					for _, w2 := range cpf.writesToVar(rs, src, true) {
						if as, isAs := w2.(*ast.AssignStmt); isAs && len(as.Rhs) == 1 {
							if mm, kk, ok2 := indexOf(as.Rhs[0]); ok2 && cpf.ObjOf(kk) == keyVar && cpf.ObjOf(mm) == cpf.VarFromCallWhere(func(ce *ast.CallExpr) bool {
								fn := cpf.Callee(ce)
								return fn != nil && fn.Name() == "GetMeta"
							}, 0) {
								okCopy = true
							}
						}
					}
				}
			}
			c.Check(okCopy, "cancelledParams:copies-by-key", cpf, rs, "each listed key present in the request's _meta is copied into the notice's _meta")
		})
		for o, seen := range want {
			c.Check(seen, "cancelledParams:inherits-"+o.Name(), cpf, nil, "%s is among the inherited keys", o.Name())
		}
	})

	c.Import("R-C12-6", "the client derives the Mcp-Param-* headers of a tools/call from the tool definitions it has cached: a list_changed notification invalidates that cache before the user's handler runs, so definitions fetched from within the handler are the ones later calls use", "C18", "R-C18-5", func(k string) bool { return strings.HasPrefix(k, "callToolChangedHandler") })

	c.Import("R-C12-8", "the cached tool definitions the Mcp-Param-* headers are derived from are not evicted wholesale by the expiry of one page", "C18", "R-C18-6", func(k string) bool { return strings.HasPrefix(k, "methodCache:") })

	c.Rule("R-C12-5", "the client puts the per-request metadata (from which the mirrored headers are derived and which the server's gate demands) on every request it sends on the 2026-07-28 protocol: under usesNewProtocol() no handleSend is reachable without injectRequestMeta, except for a closed table of methods", func() {
		hs := c.FnObj(pM, "", "handleSend")
		inj := c.FnObj(pM, "", "injectRequestMeta")
		unp := c.FnObj(pM, "ClientSession", "usesNewProtocol")
		// method constant → why no metadata is injected there
		exempt := map[string]string{
			"methodInitialize": "legacy handshake: the metadata travels in the initialize params",
			"methodDiscover":   "Client.discover builds the probe's _meta itself before any session state exists",
			"methodPing":       "ping is served by the gate without metadata on every protocol version",
			"methodSetLevel":   "logging/setLevel exists only on the legacy protocol (2026-07-28 carries the level in _meta)",
		}
		n := 0
		for _, f := range c.funcsWithLits(pM) {
			if f.Lit != nil || f.Recv() == nil {
				if f.Lit != nil {
					continue
				}
			}
			calls := f.CallsIn(f.Body, hs, false)
			if len(calls) == 0 || f.Obj == hs {
				continue
			}
			recvIsCS := f.Recv() != nil && isNamedType(f.Recv().Type(), modPath+"/"+pM, "ClientSession")
			if !recvIsCS && f.ParamOfNamed(pM, "ClientSession") == nil {
				continue
			}
			g := f.Graph()
			for _, call := range calls {
				mname := exprStr(call.Args[1])
				key := f.Name() + ":" + mname
				if why, ok := exempt[mname]; ok {
					c.Ok("meta-injected:"+key, f, call, "exempt: %s", why)
					continue
				}
				n++
				injected := func(v int) bool { return g.Node(v) != nil && f.ContainsCall(g.Node(v), inj) }
				seen := g.ReachUnder(func(e ast.Expr) tri {
					if ce, ok := ast.Unparen(e).(*ast.CallExpr); ok && f.IsCallTo(ce, unp) {
						return triTrue
					}
					return triUnknown
				}, injected)
				hv := g.VertexOf(call)
				// (ReachUnder enters the entry vertex unconditionally: a function whose first statement injects is fine)
				firstInjects := false
				for v := g.Entry; v < g.N && !firstInjects; v++ {
					if g.Node(v) != nil {
						firstInjects = injected(v)
						break
					}
				}
				c.Check(!seen[hv] || injected(hv) || firstInjects, "meta-injected:"+key, f, call, "on the new protocol this request cannot be sent without injectRequestMeta having filled _meta (the server answers -32602 to a request without it, and the mirrored headers would be missing)")
			}
		}
		c.Pin("client request sites subject to the metadata rule", n, 12)
	})

	c.Rule("R-C12-3", "client encoder and server validator agree on the value space: same skip conditions, absence decided by presence (not by emptiness), same base64 wrapper, same integer range", func() {
		vph := c.Fn(pM, "", "validateParamHeaders")
		g := vph.Graph()
		// can the encoder emit ""?  requiresBase64Encoding("") == false and primitiveToString is the identity on strings
		rb := c.Fn(pM, "", "requiresBase64Encoding")
		rg := rb.Graph()
		emitsEmpty := false
		for _, r := range rb.Returns() {
			if len(r.Results) == 1 && exprStr(r.Results[0]) == "false" {
				if hasAtom(rg.GuardsAt(rg.VertexOf(r)), func(a Atom) bool {
					x, y, op, ok := binaryCmp(a.E)
					z, isZ := rb.ConstInt(y)
					return ok && op == token.EQL && a.Val && strings.HasPrefix(exprStr(x), "len(") && isZ && z == 0
				}) {
					emitsEmpty = true
				}
			}
		}
		// the server's "missing header" rejection
		n := 0
		for i, r := range vph.Returns() {
			if len(r.Results) != 1 {
				continue
			}
			ce, ok := ast.Unparen(r.Results[0]).(*ast.CallExpr)
			if !ok {
				continue
			}
			format, _ := vph.ConstString(ce.Args[0])
			if !strings.Contains(format, "missing") {
				continue
			}
			n++
			guards := g.GuardsAt(g.VertexOf(r))
			byPresence := hasAtom(guards, func(a Atom) bool {
				x, y, op, ok := binaryCmp(a.E)
				z, isZ := vph.ConstInt(y)
				if !ok || op != token.EQL || !a.Val || !isZ || z != 0 {
					return false
				}
				lc, isC := ast.Unparen(x).(*ast.CallExpr)
				if !isC || vph.BuiltinName(lc) != "len" {
					return false
				}
				inner, isC2 := ast.Unparen(lc.Args[0]).(*ast.CallExpr)
				return isC2 && vph.Callee(inner) != nil && vph.Callee(inner).Name() == "Values"
			}) || hasAtom(guards, func(a Atom) bool {
				// the comma-ok of a direct map lookup in the header
				if a.Val {
					return false
				}
				o := vph.ObjOf(a.E)
				for _, w := range Writes(vph.Body, false) {
					if as, isAs := w.Stmt.(*ast.AssignStmt); isAs && len(as.Lhs) == 2 && len(as.Rhs) == 1 && o != nil && vph.ObjOf(as.Lhs[1]) == o {
						if _, _, isIx := indexOf(as.Rhs[0]); isIx {
							return true
						}
					}
				}
				return false
			})
			if emitsEmpty {
				c.Check(byPresence, "validateParamHeaders:missing-decided-by-presence#"+itoa(i), vph, r, "the client can legitimately send an empty header value (argument \"\"), so the server may call a header missing only when it is absent (header.Values / map lookup), not when Get() returns \"\" (guards: %s)", atomsString(guards))
			} else {
				c.Ok("validateParamHeaders:missing-decided-by-presence#"+itoa(i), vph, r, "the encoder never emits an empty value, so an emptiness test is an adequate absence test")
			}
		}
		c.Pin("missing-header rejection", n, 1)
		// skip conditions agree: client skips absent/null/non-primitive; server expects no header for absent/null
		gen := c.Fn(pM, "", "generateParamHeaders")
		gg := gen.Graph()
		// the tests that stand between an annotated parameter and its header (absent, null, not a primitive, not
		// encodable), counted as atomic tests of the gate of the assignment, however they are spread over if statements
		skips := 0
		for _, w := range Writes(gen.Body, false) {
			if _, _, isIx := indexOf(w.LHS); isIx {
				if n, _ := gg.gateLeaves(gg.VertexOf(w.Stmt), true); n > skips {
					skips = n
				}
			}
		}
		okNull := false
		for _, cv := range g.condVertices() {
			cond := g.Node(cv - 1).(ast.Expr)
			var leaves []ast.Expr
			var flat func(e ast.Expr)
			flat = func(e ast.Expr) {
				e = ast.Unparen(e)
				if b, ok := e.(*ast.BinaryExpr); ok && (b.Op == token.LOR || b.Op == token.LAND) {
					flat(b.X)
					flat(b.Y)
					return
				}
				leaves = append(leaves, e)
			}
			flat(cond)
			hasNull, hasAbsent := false, false
			for _, l := range leaves {
				if _, y, op, ok := binaryCmp(l); ok && op == token.EQL {
					if sv, isC := vph.ConstString(y); isC && sv == "null" {
						hasNull = true
					}
				}
				if inner, neg := stripNot(l); neg {
					if bt, isB := vph.TypeOf(inner).(*types.Basic); isB && bt.Info()&types.IsBoolean != 0 {
						if _, isID := ast.Unparen(inner).(*ast.Ident); isID {
							hasAbsent = true
						}
					}
				}
			}
			if hasNull && hasAbsent {
				okNull = true
			}
		}
		c.Check(skips >= 4 && okNull, "skip-conditions-agree", gen, nil, "the client omits the header for absent, null and non-primitive arguments (%d skip branches); the server demands no header exactly for absent or null arguments", skips)
		// base64 wrapper constants used on both sides
		enc, dec := c.Fn(pM, "", "encodeHeaderValue"), c.Fn(pM, "", "decodeHeaderValue")
		for _, k := range []string{"base64Prefix", "base64Suffix"} {
			o := c.Obj(pM, k)
			// the encoder side is everything behind encodeHeaderValue; the must-encode test is part of it
			encSide := false
			for _, f := range c.pkgClosure(enc) {
				if f != rb && f.Mentions(f.Body, o) {
					encSide = true
				}
			}
			c.Check(encSide && c.closureMentions(dec, o) && c.closureMentions(rb, o), "base64-wrapper:"+k, enc, nil, "%s is used by the encoder, the decoder and the must-encode test (sentinel-looking plain values are encoded)", k)
		}
		// integer range constants on both sides
		up, pe := c.Fn(pM, "", "unmarshalPrimitive"), c.Fn(pM, "", "primitiveEqual")
		// the header is read as a number only when the body value is an integer: a string argument "007" or "1.0" is
		// compared as the string it is (a numeric reading of the header regardless of the body's type rejects the client's
		// own correct header and accepts "7.0" for the string "7")
		{
			peg := pe.Graph()
			nNum := 0
			for _, call := range pe.AllCalls(pe.Body, false) {
				fn := pe.Callee(call)
				if fn == nil || fn.Pkg() == nil || fn.Pkg().Path() != "strconv" || !strings.HasPrefix(fn.Name(), "Parse") {
					continue
				}
				nNum++
				gs := peg.GuardsAt(peg.VertexOf(call))
				okInt := hasAtom(gs, func(a Atom) bool {
					if !a.Val {
						return false
					}
					o := pe.ObjOf(a.E)
					if o == nil {
						return false
					}
					// the comma-ok of bodyVal.(int64)
					for _, w := range Writes(pe.Body, false) {
						as, isAs := w.Stmt.(*ast.AssignStmt)
						if !isAs || len(as.Lhs) != 2 || len(as.Rhs) != 1 || pe.ObjOf(as.Lhs[1]) != o {
							continue
						}
						if ta, isTA := ast.Unparen(as.Rhs[0]).(*ast.TypeAssertExpr); isTA && ta.Type != nil {
							if b, isB := pe.TypeOf(ta.Type).(*types.Basic); isB && b.Kind() == types.Int64 {
								return true
							}
						}
					}
					return false
				})
				c.Check(okInt, "primitiveEqual:numeric-reading-only-for-integer-bodies#"+itoa(nNum), pe, call, "the header is parsed as a number only under `bodyVal.(int64)` ok (guards: %s)", atomsString(gs))
			}
			c.Pin("numeric parses of the header in primitiveEqual", nNum, 1)
		}
		for _, k := range []string{"minSafeInteger", "maxSafeInteger"} {
			o := c.Obj(pM, k)
			c.Check(up.Mentions(up.Body, o) && pe.Mentions(pe.Body, o), "integer-range:"+k, up, nil, "%s bounds both the body-side decoding and the header-side comparison", k)
			// the bounds themselves are inside the interoperable range: a value is refused only strictly below the minimum
			// / strictly above the maximum (plus or minus 2^53-1 must round-trip)
			want := map[string]token.Token{"minSafeInteger": token.LSS, "maxSafeInteger": token.GTR}[k]
			for _, f := range []*Func{up, pe} {
				n, okB := 0, true
				ast.Inspect(f.Body, func(x ast.Node) bool {
					if be, isB := x.(*ast.BinaryExpr); isB {
						if f.ObjOf(be.Y) == o {
							n++
							if be.Op != want {
								okB = false
							}
						} else if f.ObjOf(be.X) == o {
							n++
							okB = false // comparisons are normalised constant-right; anything else is not the idiom
						}
					}
					return true
				})
				c.Check(okB && n >= 1, "integer-range:"+k+":inclusive:"+f.Name(), f, nil, "%s itself is accepted (the refusing comparison is strict)", k)
			}
		}
	})

	c.Rule("R-C12-13", "the client's must-encode test classifies the bytes of an argument the way HTTP does: everything outside 0x20..0x7E (controls, DEL, non-ASCII) is treated like a control character, everything inside like a letter — decided by evaluating the range tests of the code behind encodeHeaderValue for the boundary values, not by their spelling", func() {
		enc := c.Fn(pM, "", "encodeHeaderValue")
		isElem := func(f *Func, e ast.Expr) bool {
			id, ok := ast.Unparen(e).(*ast.Ident)
			if !ok {
				return false
			}
			if _, isVar := f.ObjOf(id).(*types.Var); !isVar {
				return false
			}
			b, isB := f.TypeOf(id).Underlying().(*types.Basic)
			return isB && (b.Kind() == types.Uint8 || b.Kind() == types.Int32)
		}
		n := 0
		for _, f := range c.pkgClosure(enc) {
			ranged := false
			ast.Inspect(f.Body, func(x ast.Node) bool {
				if a, y, op, ok := binaryCmp2(x); ok && (op == token.LSS || op == token.LEQ || op == token.GTR || op == token.GEQ) && isElem(f, a) {
					if _, isC := f.ConstInt(y); isC {
						ranged = true
					}
				}
				return true
			})
			if !ranged {
				continue
			}
			n++
			c.touch(f)
			g := f.Graph()
			outcome := func(v int64) string {
				leaf := func(e ast.Expr) tri {
					a, y, op, ok := binaryCmp(e)
					if !ok || !isElem(f, a) {
						return triUnknown
					}
					z, isC := f.ConstInt(y)
					if !isC {
						return triUnknown
					}
					var r bool
					switch op {
					case token.EQL:
						r = v == z
					case token.NEQ:
						r = v != z
					case token.LSS:
						r = v < z
					case token.LEQ:
						r = v <= z
					case token.GTR:
						r = v > z
					case token.GEQ:
						r = v >= z
					default:
						return triUnknown
					}
					if r {
						return triTrue
					}
					return triFalse
				}
				reach := g.ReachUnder(leaf, nil)
				var rs []string
				for _, r := range f.Returns() {
					if reach[g.VertexOf(r)] {
						rs = append(rs, itoa(f.Line(r)))
					}
				}
				return strings.Join(rs, ",")
			}
			ctl, letter := outcome(0x1F), outcome('A')
			c.Check(ctl != letter, "byte-classes:"+f.Name()+":distinguishes", f, nil, "a control character and a letter reach different returns (returns reachable for 0x1F: %s, for 'A': %s)", ctl, letter)
			for _, v := range []int64{0x00, 0x7F, 0x80, 0xFF} {
				c.Check(outcome(v) == ctl, "byte-classes:"+f.Name()+":"+fmt.Sprintf("0x%02X", v)+"-like-a-control", f, nil, "0x%02X is classified like 0x1F (returns reachable: %s vs %s): a raw DEL or non-ASCII byte in a header value is refused by HTTP stacks, so the value must be wrapped", v, outcome(v), ctl)
			}
			for _, v := range []int64{0x20, 0x7E} {
				c.Check(outcome(v) == letter, "byte-classes:"+f.Name()+":"+fmt.Sprintf("0x%02X", v)+"-like-a-letter", f, nil, "0x%02X is classified like 'A' (returns reachable: %s vs %s)", v, outcome(v), letter)
			}
		}
		c.Pin("range tests on argument bytes behind encodeHeaderValue", n, 1)
	})
}

func keysOf(m map[string]bool) []string {
	var out []string
	for k := range m {
		out = append(out, k)
	}
	sort.Strings(out)
	return out
}

// ---- object-based leaf matchers (independent of variable names) --------------------------------

// objIs: an identifier denoting obj evaluates to v.
func objIs(obj types.Object, v tri) leafMatcher {
	return func(f *Func, e ast.Expr) (tri, bool) {
		if id, ok := e.(*ast.Ident); ok && obj != nil && f.ObjOf(id) == obj {
			return v, true
		}
		return 0, false
	}
}

// nilObj: `obj == nil` / `obj != nil`.
func nilObj(obj types.Object, isNil tri) leafMatcher {
	return func(f *Func, e ast.Expr) (tri, bool) {
		x, twn, ok := NilTest(e)
		if !ok || obj == nil || f.ObjOf(x) != obj {
			return 0, false
		}
		if twn {
			return isNil, true
		}
		return triNot(isNil), true
	}
}

// cmpObj: a comparison whose left operand denotes obj, with operator op.
func cmpObj(obj types.Object, op token.Token, v tri) leafMatcher {
	return func(f *Func, e ast.Expr) (tri, bool) {
		x, _, o, ok := binaryCmp(e)
		if ok && o == op && obj != nil && f.ObjOf(x) == obj {
			return v, true
		}
		return 0, false
	}
}

// lenCmpObj: len(obj) OP <something>.
func lenCmpObj(obj types.Object, op token.Token, v tri) leafMatcher {
	return func(f *Func, e ast.Expr) (tri, bool) {
		x, _, o, ok := binaryCmp(e)
		if !ok || o != op || obj == nil {
			return 0, false
		}
		if ce, isC := ast.Unparen(x).(*ast.CallExpr); isC && f.BuiltinName(ce) == "len" && f.ObjOf(ce.Args[0]) == obj {
			return v, true
		}
		return 0, false
	}
}

// cmpPath: a comparison whose left operand has the given type-rooted field path (e.g. "Request.Method").
func cmpPath(path string, op token.Token, v tri) leafMatcher {
	return func(f *Func, e ast.Expr) (tri, bool) {
		x, _, o, ok := binaryCmp(e)
		if ok && o == op && f.FieldPath(x) == path {
			return v, true
		}
		return 0, false
	}
}

// methodIs: the request's method is name: `req.Method == K` holds exactly for K == name (and `!=` for the others).
func methodIs(name string) leafMatcher {
	return func(f *Func, e ast.Expr) (tri, bool) {
		x, y, op, ok := binaryCmp(e)
		if !ok || (op != token.EQL && op != token.NEQ) || f.FieldPath(f.valueOf(x)) != "Request.Method" {
			return 0, false
		}
		k, isC := f.ConstString(y)
		if !isC {
			return 0, false
		}
		return boolTri((k == name) == (op == token.EQL)), true
	}
}

// callArgMentions: a call of a function named fn whose first argument mentions obj.
func callArgMentions(fn string, obj types.Object, v tri) leafMatcher {
	return func(f *Func, e ast.Expr) (tri, bool) {
		ce, ok := e.(*ast.CallExpr)
		if !ok || obj == nil || len(ce.Args) == 0 {
			return 0, false
		}
		if c := f.Callee(ce); c == nil || c.Name() != fn || !f.Mentions(ce.Args[0], obj) {
			return 0, false
		}
		return v, true
	}
}

// callArgField: a call of fn whose first argument is a selector of the field named field.
func callArgField(fn, field string, v tri) leafMatcher {
	return func(f *Func, e ast.Expr) (tri, bool) {
		ce, ok := e.(*ast.CallExpr)
		if !ok || len(ce.Args) == 0 {
			return 0, false
		}
		if c := f.Callee(ce); c == nil || c.Name() != fn {
			return 0, false
		}
		if s, ok := ast.Unparen(ce.Args[0]).(*ast.SelectorExpr); ok && s.Sel.Name == field {
			return v, true
		}
		return 0, false
	}
}

// typeAssertVars returns (value, ok) of `v, ok := x.(pkg.name)` in f's own body.
func typeAssertVars(f *Func, pkgPath, name string) (types.Object, types.Object) {
	var a, b types.Object
	inspectNoLit(f.Body, func(n ast.Node) {
		as, ok := n.(*ast.AssignStmt)
		if !ok || len(as.Lhs) != 2 || len(as.Rhs) != 1 {
			return
		}
		if ta, ok := ast.Unparen(as.Rhs[0]).(*ast.TypeAssertExpr); ok && ta.Type != nil && isNamedType(f.TypeOf(ta.Type), pkgPath, name) {
			a, b = f.ObjOf(as.Lhs[0]), f.ObjOf(as.Lhs[1])
		}
	})
	return a, b
}

// ruleNoSilent200: in every function that holds an http.ResponseWriter, no path from entry to a return leaves the
// response untouched. "Touched" is any use of the writer other than reading or setting headers: WriteHeader, Write, a call
// that is given the writer (http.Error, writeJSONRPCError, a delegate handler), storing it for another goroutine, or a
// closure that captures it. A return on an untouched path is an implicit "200 OK" with an empty body — for a rejection path
// that is the wrong status, for an accepting path the caller's handler never ran.
func ruleNoSilent200(c *Ctx, id string, rels []string, keep func(f *Func) bool, minF, minR int) {
	c.Rule(id, "no silent 200: every return of a function holding the http.ResponseWriter lies behind a use of the writer (status, body, delegation); a refusal that forgets its http.Error is an accepted request with an empty 200", func() {
		nf, nr := 0, 0
		for _, rel := range rels {
			for _, f := range c.funcsWithLits(rel) {
				if f.Body == nil {
					continue
				}
				var w *types.Var
				for _, p := range f.NonRecvParams() {
					if isNamedType(p.Type(), "net/http", "ResponseWriter") {
						w = p
					}
				}
				if w == nil || (keep != nil && !keep(f)) {
					continue
				}
				nf++
				c.touch(f)
				g := f.Graph()
				touches := func(v int) bool {
					n := g.Node(v)
					if n == nil {
						return false
					}
					hit := false
					ast.Inspect(n, func(x ast.Node) bool {
						if hit {
							return false
						}
						switch y := x.(type) {
						case *ast.FuncLit:
							if f.Mentions(y, w) {
								hit = true
							}
							return false
						case *ast.CallExpr:
							for _, a := range y.Args {
								if f.ObjOf(a) == types.Object(w) {
									hit = true
								}
							}
							if sel, ok := ast.Unparen(y.Fun).(*ast.SelectorExpr); ok && f.ObjOf(sel.X) == types.Object(w) && sel.Sel.Name != "Header" {
								hit = true
							}
						case *ast.AssignStmt:
							for _, r := range y.Rhs {
								if f.ObjOf(r) == types.Object(w) {
									hit = true
								}
							}
						case *ast.KeyValueExpr:
							if f.ObjOf(y.Value) == types.Object(w) {
								hit = true
							}
						}
						return true
					})
					return hit
				}
				ends := append([]int{}, g.Exits...)
				for i, e := range ends {
					// a return that reports "proceed" (a true among its results) leaves the response to the caller
					if r, isR := g.Node(e).(*ast.ReturnStmt); isR {
						proceed := false
						for _, x := range r.Results {
							if cv := f.ConstVal(x); cv != nil && cv.Kind() == constant.Bool && constant.BoolVal(cv) {
								proceed = true
							}
						}
						// the opposite convention ("reports whether the request was rejected"): the function has one boolean result,
						// every return of true lies behind a use of the writer and some return of false does not, so it is false that
						// leaves the response to the caller — and true must lie behind the answer
						if c12HandledIsTrue(f, g, touches) {
							proceed = false
							if len(r.Results) == 1 {
								if cv := f.ConstVal(r.Results[0]); cv != nil && cv.Kind() == constant.Bool && !constant.BoolVal(cv) {
									proceed = true
								}
							}
						}
						if proceed {
							continue
						}
						// one reasoned exemption: acquireStream's "nothing more to do" return. A resumed stream that is complete and has
						// nothing left to replay is answered with an empty 200 event stream, which is what the headers set so far say.
						if f.Name() == "(*streamableServerConn).acquireStream" {
							replayDone := false
							for _, cv := range g.guardingConds(e) {
								if ce, isE := g.Node(cv).(ast.Expr); isE {
									for _, call := range f.AllCalls(ce, false) {
										if fn := f.Callee(call); fn != nil && fn.Name() == "doneLocked" {
											replayDone = true
										}
									}
									// the same test written out: len(s.requests) == 0
									ast.Inspect(ce, func(n ast.Node) bool {
										if x, y, op, ok := binaryCmp2(n); ok && op == token.EQL {
											if lc, isC := ast.Unparen(x).(*ast.CallExpr); isC && f.BuiltinName(lc) == "len" && len(lc.Args) == 1 && strings.HasSuffix(f.FieldPath(lc.Args[0]), "stream.requests") {
												if z, isZ := f.ConstInt(y); isZ && z == 0 {
													replayDone = true
												}
											}
										}
										return true
									})
								}
							}
							if replayDone {
								c.Ok("responds:"+f.Name()+":replay-complete", f, r, "exempt: the stream is complete and fully replayed; an empty 200 event stream is the answer")
								continue
							}
						}
					}
					nr++
					ok, path := g.DominatedBy(e, touches)
					c.Check(ok, "responds:"+f.Name()+"#"+itoa(i), f, g.Node(e), "this return is reached only after the response was written or handed on %s", g.PathString(path))
				}
			}
		}
		c.Pin("functions holding a ResponseWriter", nf, minF)
		c.Pin("their returns", nr, minR)
	})
}

// ruleHeadersBeforeStatus: response headers set after the status line has gone out are silently dropped by net/http.
// For every function of rels and every http.ResponseWriter expression in it, no Header().Set/Add/Del on that writer is
// reachable from a statement that commits the response on the same writer (WriteHeader, Write, http.Error, a helper that
// is given the writer and writes, fmt.Fprint* to it).
func ruleHeadersBeforeStatus(c *Ctx, id string, rels []string, minSets int) {
	c.Rule(id, "headers are set before the status line: no Header().Set on a ResponseWriter is reachable from a WriteHeader / Write / http.Error on the same writer (a 405 without its Allow, an error body without its Content-Type)", func() {
		nSets := 0
		for _, rel := range rels {
			for _, f := range c.funcsWithLits(rel) {
				if f.Body == nil {
					continue
				}
				isW := func(e ast.Expr) bool {
					t := f.TypeOf(e)
					return t != nil && isNamedType(t, "net/http", "ResponseWriter")
				}
				type site struct {
					key string
					v   int
					n   ast.Node
				}
				var sets, commits []site
				g := f.Graph()
				for _, call := range f.AllCalls(f.Body, false) {
					sel, isSel := ast.Unparen(call.Fun).(*ast.SelectorExpr)
					if isSel {
						// w.Header().Set(...)
						if hc, isC := ast.Unparen(sel.X).(*ast.CallExpr); isC && (sel.Sel.Name == "Set" || sel.Sel.Name == "Add" || sel.Sel.Name == "Del") {
							if hs, isS := ast.Unparen(hc.Fun).(*ast.SelectorExpr); isS && hs.Sel.Name == "Header" && isW(hs.X) {
								sets = append(sets, site{canonExpr(f, hs.X), g.VertexOf(call), call})
								continue
							}
						}
						if (sel.Sel.Name == "WriteHeader" || sel.Sel.Name == "Write") && isW(sel.X) {
							commits = append(commits, site{canonExpr(f, sel.X), g.VertexOf(call), call})
							continue
						}
					}
					// a callee that is handed the writer and is known to write the status
					if fn := f.Callee(call); fn != nil {
						writes := (fn.Pkg() != nil && fn.Pkg().Path() == "net/http" && fn.Name() == "Error") ||
							(fn.Pkg() != nil && fn.Pkg().Path() == "fmt" && strings.HasPrefix(fn.Name(), "Fprint")) ||
							fn.Name() == "writeJSONRPCError" || fn.Name() == "writeEvent"
						if writes && len(call.Args) > 0 && isW(call.Args[0]) {
							commits = append(commits, site{canonExpr(f, call.Args[0]), g.VertexOf(call), call})
						}
					}
				}
				if len(sets) == 0 {
					continue
				}
				c.touch(f)
				for i, s := range sets {
					nSets++
					late := ""
					for _, cm := range commits {
						if cm.key == s.key && cm.v != s.v && g.ReachableFrom(cm.v)[s.v] {
							late = f.At(cm.n)
						}
					}
					c.Check(late == "", "header-before-status:"+f.Name()+"#"+itoa(i), f, s.n, "this header is set before anything commits the response (status written at %s)", late)
				}
			}
		}
		c.Pin("Header().Set sites", nSets, minSets)
	})
}

// c12HandledIsTrue: f returns exactly one boolean, every return is a constant, there are returns of both values, and every
// `return true` is reached only after the response writer was used while some `return false` is not: the result says
// "the response was written" (true) / "go on" (false).
func c12HandledIsTrue(f *Func, g *Graph, touches func(int) bool) bool {
	var res *ast.FieldList
	if f.Decl != nil {
		res = f.Decl.Type.Results
	} else if f.Lit != nil {
		res = f.Lit.Type.Results
	}
	if res == nil || len(res.List) != 1 || len(res.List[0].Names) > 1 {
		return false
	}
	if b, ok := f.TypeOf(res.List[0].Type).Underlying().(*types.Basic); !ok || b.Kind() != types.Bool {
		return false
	}
	nT, nF, untouchedF := 0, 0, 0
	for _, e := range g.Exits {
		r, isR := g.Node(e).(*ast.ReturnStmt)
		if !isR || len(r.Results) != 1 {
			return false
		}
		cv := f.ConstVal(r.Results[0])
		if cv == nil || cv.Kind() != constant.Bool {
			return false
		}
		ok, _ := g.DominatedBy(e, touches)
		if constant.BoolVal(cv) {
			nT++
			if !ok {
				return false
			}
		} else {
			nF++
			if !ok {
				untouchedF++
			}
		}
	}
	return nT > 0 && nF > 0 && untouchedF > 0
}

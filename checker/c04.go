package main

import (
	"go/ast"
	"go/constant"
	"go/token"
	"go/types"
	"reflect"
	"strings"
)

func init() { register("C04", rulesC04, nil) }

// detachedNotifyCtx checks that ctxArg is a variable defined by
// context.WithTimeout(context.WithoutCancel(<the function's ctx parameter>), notifyCancellationTimeout)
// in function f and that the returned cancel func is deferred.
func (c *Ctx) detachedNotifyCtx(f *Func, ctxArg ast.Expr, ctxParam types.Object) (bool, string) {
	wt := c.Std("context", "", "WithTimeout")
	wd := c.Std("context", "", "WithDeadline")
	woc := c.Std("context", "", "WithoutCancel")
	tmo := c.Obj(pM, "notifyCancellationTimeout")
	v := f.ObjOf(ctxArg)
	if v == nil {
		return false, "context argument is not a variable"
	}
	for _, w := range Writes(f.Body, false) {
		as, ok := w.Stmt.(*ast.AssignStmt)
		if !ok || len(as.Lhs) != 2 || len(as.Rhs) != 1 || f.ObjOf(as.Lhs[0]) != v {
			continue
		}
		call, ok := ast.Unparen(as.Rhs[0]).(*ast.CallExpr)
		if !ok || !(f.IsCallTo(call, wt) || f.IsCallTo(call, wd)) || len(call.Args) != 2 {
			return false, "context is not built with context.WithTimeout or context.WithDeadline"
		}
		inner, ok := ast.Unparen(call.Args[0]).(*ast.CallExpr)
		if ok && f.IsCallTo(inner, woc) && len(inner.Args) == 1 && f.ObjOf(inner.Args[0]) != ctxParam {
			// the literal may have received the caller's context as an argument
			if of, oe := f.resolveValue(inner.Args[0]); of.ObjOf(oe) == ctxParam {
				inner = &ast.CallExpr{Fun: inner.Fun, Args: []ast.Expr{inner.Args[0]}}
				goto parentOK
			}
		}
		if !ok || !f.IsCallTo(inner, woc) || len(inner.Args) != 1 || f.ObjOf(inner.Args[0]) != ctxParam {
			return false, "parent is not context.WithoutCancel(ctx) of the caller's context (" + exprStr(call.Args[0]) + "): a Background context loses the request-scoped values used for routing, the cancelled ctx itself can never deliver the notice"
		}
	parentOK:
		// the bound comes from notifyCancellationTimeout and from nothing the caller's context says: that context is done, its
		// deadline (if it had one) has passed, and a notice bounded by it can never be delivered
		deps := f.dependsOn(call.Args[1])
		if !deps[tmo] {
			return false, "the bound is not derived from notifyCancellationTimeout"
		}
		if deps[ctxParam] {
			return false, "the bound of the notice depends on the caller's context (" + exprStr(call.Args[1]) + "): when the call is abandoned because its deadline passed, the notice is dead on arrival"
		}
		cancelVar := f.ObjOf(as.Lhs[1])
		deferred := false
		inspectNoLit(f.Body, func(n ast.Node) {
			if d, ok := n.(*ast.DeferStmt); ok && f.ObjOf(d.Call.Fun) == cancelVar {
				deferred = true
			}
		})
		if !deferred {
			return false, "the timeout's cancel function is not deferred (timer leak)"
		}
		return true, ""
	}
	return false, "no definition of the context variable found"
}

// dependsOn returns the objects e is computed from: those it mentions and, through local variables, those mentioned by
// anything assigned to them anywhere in the enclosing declared function (flow-insensitive, so an over-approximation).
func (f *Func) dependsOn(e ast.Expr) map[types.Object]bool {
	root := f.Root()
	writes := Writes(root.Body, true)
	deps := map[types.Object]bool{}
	var work []ast.Node
	work = append(work, e)
	for len(work) > 0 {
		n := work[len(work)-1]
		work = work[:len(work)-1]
		ast.Inspect(n, func(x ast.Node) bool {
			id, ok := x.(*ast.Ident)
			if !ok {
				return true
			}
			o := f.Info().Uses[id]
			if o == nil || deps[o] {
				return true
			}
			deps[o] = true
			if vr, isVar := o.(*types.Var); isVar && !vr.IsField() && vr.Parent() != nil && vr.Pkg() != nil && vr.Parent() != vr.Pkg().Scope() {
				for _, w := range writes {
					lid, ok := ast.Unparen(w.LHS).(*ast.Ident)
					if !ok || (f.Info().Uses[lid] != o && f.Info().Defs[lid] != o) {
						continue
					}
					if w.RHS != nil {
						work = append(work, w.RHS)
					} else if as, ok := w.Stmt.(*ast.AssignStmt); ok {
						for _, r := range as.Rhs {
							work = append(work, r)
						}
					} else if rs, ok := w.Stmt.(*ast.RangeStmt); ok {
						work = append(work, rs.X)
					}
				}
			}
			return true
		})
	}
	return deps
}

func rulesC04(c *Ctx) {
	c.Rule("R-C04-11", "a cancellation notice is not left waiting for the write lock only to be discarded: ioConn.Write looks at its context before it queues for writeMu (checked afterwards, a notice that waited behind a stalled write longer than its own deadline is dropped although the connection has recovered, and the peer's handler is never cancelled)", func() {
		iw := c.Fn(pM, "ioConn", "Write")
		ctxP := iw.CtxParam()
		c.Need(ctxP != nil, "ioConn.Write: ctx parameter")
		n := 0
		ast.Inspect(iw.Body, func(x ast.Node) bool {
			u, ok := x.(*ast.UnaryExpr)
			if !ok || u.Op != token.ARROW {
				return true
			}
			ce, isC := ast.Unparen(u.X).(*ast.CallExpr)
			if !isC {
				return true
			}
			sel, isS := ast.Unparen(ce.Fun).(*ast.SelectorExpr)
			if !isS || sel.Sel.Name != "Done" || iw.ObjOf(sel.X) != types.Object(ctxP) {
				return true
			}
			n++
			c.Check(!iw.heldLocal(u)["ioConn.writeMu"], "ioConn.Write:context-checked-before-the-lock", iw, u, "the <-ctx.Done() test runs without writeMu held")
			return true
		})
		c.Pin("ioConn.Write context tests", n, 1)
	})
	c.Import("R-C04-10", "a cancelled write is told from a broken writer by errors.Is against the sentinel as target (ErrRejected, context errors)", "C02", "R-C02-13", nil)
	retireObj := c.FnObj(pJ, "Connection", "Retire")
	notifyObj := c.FnObj(pJ, "Connection", "Notify")
	callObj := c.FnObj(pJ, "Connection", "Call")
	cancelCallObj := c.FnObj(pM, "", "cancelCall")

	c.Rule("R-C04-1", "caller side: on ctx cancellation the call is retired on the return path; the cancelled notice is sent off the return path with a bounded, detached context and names exactly this call's id", func() {
		call := c.Fn(pM, "", "call")
		g := call.Graph()
		ctxParam := call.CtxParam()
		dbg := c.Obj(pM, "blockingcancelnotify")
		// the AsyncCall variable
		var acVar types.Object
		for _, w := range Writes(call.Body, false) {
			if ce, ok := ast.Unparen(w.RHS).(*ast.CallExpr); ok && w.RHS != nil && call.IsCallTo(ce, callObj) {
				acVar = call.ObjOf(w.LHS)
			}
		}
		c.Need(acVar != nil && ctxParam != nil, "mcp.call: AsyncCall variable and ctx parameter")
		isDebug := func(atoms []Atom) bool {
			return hasAtom(atoms, func(a Atom) bool {
				x, _, op, ok := binaryCmp(a.E)
				return ok && op == token.EQL && a.Val && call.ObjOf(x) == dbg
			})
		}
		// the ctx arm: returns guarded by ctx.Err() != nil
		nRet := 0
		for _, r := range call.Returns() {
			rv := g.VertexOf(r)
			// identify the returns of the arm `ctx.Err() != nil` — a case of the switch or a branch of an if chain: the test
			// holds on every path to them
			inCtxArm := func(v int) bool {
				return hasAtom(g.GuardsAt(v), func(a Atom) bool {
					x, twn, ok := NilTest(a.E)
					if !ok || a.Val == twn {
						return false
					}
					ce, ok := ast.Unparen(x).(*ast.CallExpr)
					if !ok {
						return false
					}
					fn := call.Callee(ce)
					return fn != nil && fn.Name() == "Err" && fn.Pkg() != nil && fn.Pkg().Path() == "context"
				})
			}
			if !inCtxArm(rv) {
				continue
			}
			if isDebug(g.GuardsAt(rv)) {
				c.Ok("call:ctx-arm-return(MCPGODEBUG)", call, r, "legacy blocking variant, reachable only under blockingcancelnotify=1")
				continue
			}
			nRet++
			// Retire dominates, within the clause
			okR := false
			for _, v := range g.callVertices(retireObj) {
				rc := call.CallsIn(g.Node(v), retireObj, false)[0]
				if g.Dominates(v, rv) && len(rc.Args) == 2 && call.ObjOf(rc.Args[0]) == acVar && inCtxArm(v) {
					okR = true
				}
			}
			c.Check(okR, "call:retire-before-return", call, r, "conn.Retire(call, …) dominates the return of the cancelled arm: the call stops being tracked even if the peer never answers and the notice cannot be delivered")
			// no blocking peer I/O (Notify / cancelCall) between clause entry and this return on the default path
			blocked := false
			for _, fn := range []*types.Func{notifyObj, cancelCallObj} {
				for _, v := range g.callVertices(fn) {
					n := g.Node(v)
					if _, isGo := n.(*ast.GoStmt); isGo {
						continue
					}
					if inCtxArm(v) && !isDebug(g.GuardsAt(v)) && g.ReachableFrom(v)[rv] {
						blocked = true
					}
				}
			}
			c.Check(!blocked, "call:no-notify-on-return-path", call, r, "no synchronous Notify/cancelCall on the default return path (a peer that stopped draining must not delay the caller; issue #1150)")
			c.Check(len(r.Results) == 1 && func() bool {
				ce, ok := ast.Unparen(call.valueOf(r.Results[0])).(*ast.CallExpr)
				if !ok {
					return false
				}
				s, ok := ast.Unparen(ce.Fun).(*ast.SelectorExpr)
				return ok && s.Sel.Name == "Err" && call.ObjOf(s.X) == ctxParam
			}(), "call:returns-ctx-error", call, r, "the cancelled arm returns ctx.Err()")
		}
		c.Pin("cancelled-arm default returns", nRet, 1)
		// the go literal that notifies
		nGo := 0
		for _, gs := range call.goStmts() {
			lit := call.LitArgOfGo(gs)
			if lit == nil {
				continue
			}
			calls := lit.CallsIn(lit.Body, notifyObj, false)
			if len(calls) == 0 {
				continue
			}
			nGo++
			c.touch(lit)
			gv := g.VertexOf(gs)
			okDom := false
			for _, v := range g.callVertices(retireObj) {
				if g.Dominates(v, gv) && v != gv {
					okDom = true
				}
			}
			c.Check(okDom, "call:retire-before-notify-goroutine", call, gs, "the call is retired before the notifying goroutine is started")
			// ... and it is started whenever the call was retired: no budget, slot or rate limit decides whether the peer
			// is told (a notice that is silently dropped leaves the peer's handler running)
			for _, v := range g.callVertices(retireObj) {
				if !g.Dominates(v, gv) || v == gv || isDebug(g.GuardsAt(v)) {
					continue
				}
				okAll, p := g.MustPass(v, g.Exits, func(u int) bool { return u == gv })
				c.Check(okAll, "call:notice-always-sent", call, gs, "every path from conn.Retire in the cancelled arm to the return starts the goroutine that sends notifications/cancelled %s", g.PathString(p))
			}
			for _, nc := range calls {
				ok, why := c.detachedNotifyCtx(lit, nc.Args[0], ctxParam)
				c.Check(ok, "call:notify-context", lit, nc, "the notice is sent with WithTimeout(WithoutCancel(ctx), notifyCancellationTimeout) and a deferred stop %s", why)
				c.Check(len(nc.Args) == 3 && call.ObjOf(nc.Args[1]) == c.Obj(pM, "notificationCancelled"), "call:notify-method", lit, nc, "the method is notifications/cancelled")
				c.Check(len(nc.Args) == 3 && func() bool { of, oe := lit.resolveValue(nc.Args[2]); return requestIDIsCallID(of, oe, acVar) }(), "call:notify-names-this-call", lit, nc, "RequestID is call.ID().Raw() of the call being abandoned")
			}
		}
		c.Pin("notifying goroutine", nGo, 1)
		// a literal that sends the notice and is bound to a name is started with `go` wherever it is used (called directly
		// on the return path it makes the caller wait for a peer that does not drain)
		for _, lit := range call.AllLits() {
			if len(lit.CallsIn(lit.Body, notifyObj, false)) == 0 {
				continue
			}
			as, isAs := lit.Parent.ParentOf(lit.Lit).(*ast.AssignStmt)
			if !isAs || len(as.Lhs) != 1 {
				continue
			}
			v := lit.Parent.ObjOf(as.Lhs[0])
			if v == nil {
				continue
			}
			for _, uc := range call.AllCalls(call.Body, true) {
				if call.ObjOf(uc.Fun) != v {
					continue
				}
				_, viaGo := call.ParentOf(uc).(*ast.GoStmt)
				root := call
				if !viaGo {
					// the call may sit in a nested literal
					for _, l2 := range call.AllLits() {
						if encloses(l2.Body, uc) {
							_, viaGo = l2.ParentOf(uc).(*ast.GoStmt)
							root = l2
						}
					}
				}
				c.Check(viaGo || isDebug(root.Root().Graph().GuardsAt(root.Root().Graph().VertexOf(uc))), "call:named-notifier-only-via-go", call, uc, "a function value that sends notifications/cancelled is invoked with `go` only")
			}
		}

		cc := c.Fn(pM, "", "cancelCall")
		cg := cc.Graph()
		cctx, ccall := cc.CtxParam(), cc.ParamOfNamed(pJ, "AsyncCall")
		for _, nc := range cc.CallsIn(cc.Body, notifyObj, false) {
			ok, why := c.detachedNotifyCtx(cc, nc.Args[0], cctx)
			c.Check(ok, "cancelCall:notify-context", cc, nc, "bounded detached context %s", why)
			c.Check(len(nc.Args) == 3 && func() bool { of, oe := cc.resolveValue(nc.Args[2]); return requestIDIsCallID(of, oe, ccall) }(), "cancelCall:notify-names-this-call", cc, nc, "RequestID is call.ID().Raw()")
		}
		rvs := cg.callVertices(retireObj)
		okAll := len(rvs) > 0
		for _, rv := range rvs {
			if okp, _ := cg.MustPass(cg.Entry, cg.Exits, func(v int) bool { return v == rv }); !okp {
				okAll = false
			}
		}
		c.Check(okAll, "cancelCall:retire-on-all-paths", cc, nil, "cancelCall retires the call on every path, whatever Notify returned")
		// callSubscriptionsListen parks on ctx.Done and then cancels
		cl := c.Fn(pM, "", "callSubscriptionsListen")
		okL := false
		for _, gs := range cl.goStmts() {
			if lit := cl.LitArgOfGo(gs); lit != nil && len(lit.CallsIn(lit.Body, cancelCallObj, false)) == 1 {
				c.touch(lit)
				lg := lit.Graph()
				cv := lg.callVertices(cancelCallObj)[0]
				okd, _ := lg.DominatedBy(cv, func(v int) bool {
					es, ok := lg.Node(v).(*ast.ExprStmt)
					return ok && isRecvFrom(lit, es.X, func(e ast.Expr) bool {
						ce, ok := ast.Unparen(e).(*ast.CallExpr)
						if !ok {
							return false
						}
						s, ok := ast.Unparen(ce.Fun).(*ast.SelectorExpr)
						return ok && s.Sel.Name == "Done" && lit.ObjOf(s.X) == types.Object(cl.CtxParam())
					})
				})
				okL = okd
			}
		}
		c.Check(okL, "callSubscriptionsListen:cancel-after-ctx-done", cl, nil, "the listen call is cancelled (notice + retire) once its context ends")
	})

	c.Rule("R-C04-2", "receiver side: only notifications/cancelled triggers Cancel, with the id decoded from that notification's requestId, and the notification is never answered", func() {
		pre := c.Fn(pM, "canceller", "Preempt")
		g := pre.Graph()
		cancelObj := c.FnObj(pJ, "Connection", "Cancel")
		reqParam := pre.ParamOfNamed(pJ, "Request")
		methodF := c.Field(pJ, "Request", "Method")
		paramsF := c.Field(pJ, "Request", "Params")
		nc := c.Obj(pM, "notificationCancelled")
		eNH := c.Obj(pJ, "ErrNotHandled")
		unm := c.FnObj(pIJ, "", "Unmarshal")
		n := 0
		for _, f := range append([]*Func{pre}, pre.AllLits()...) {
			for _, call := range f.CallsIn(f.Body, cancelObj, false) {
				n++
				v := g.VertexOf(call)
				guards := g.GuardsAt(v)
				c.Check(hasAtom(guards, func(a Atom) bool {
					x, y, op, ok := binaryCmp(a.E)
					return ok && op == token.EQL && a.Val && pre.IsField(x, methodF) && pre.ObjOf(y) == nc
				}), "Preempt:cancel-only-for-cancelled", pre, call, "Cancel is reached only under req.Method == notifications/cancelled (guards: %s)", atomsString(guards))
				// id provenance
				idVar := f.ObjOf(call.Args[0])
				okProv, why := false, "Cancel's argument is not a local variable"
				if idVar != nil {
					why = "id is not produced by jsonrpc2.DecodeID/MakeID from the decoded requestId"
					idAliases := pre.aliasesOf(idVar)
					for _, w := range Writes(pre.Body, false) {
						as, ok := w.Stmt.(*ast.AssignStmt)
						if !ok || len(as.Rhs) != 1 || !idAliases[pre.ObjOf(as.Lhs[0])] {
							continue
						}
						ce, ok := ast.Unparen(as.Rhs[0]).(*ast.CallExpr)
						if !ok {
							continue
						}
						fn := pre.Callee(ce)
						if fn == nil || fn.Pkg() == nil || fn.Pkg().Path() != modPath+"/"+pJ || (fn.Name() != "DecodeID" && fn.Name() != "MakeID") || len(ce.Args) != 1 {
							continue
						}
						sel, ok := ast.Unparen(ce.Args[0]).(*ast.SelectorExpr)
						if !ok {
							continue
						}
						fld, _ := pre.ObjOf(sel).(*types.Var)
						holder := pre.ObjOf(sel.X)
						if fld == nil || holder == nil || !fld.IsField() {
							continue
						}
						if tag := fieldJSONName(pre, sel); tag != "requestId" {
							why = "the decoded member is " + tag + ", not requestId"
							continue
						}
						// holder was filled from req.Params by a dominating Unmarshal
						for _, uc := range pre.CallsIn(pre.Body, unm, false) {
							if len(uc.Args) != 2 || !pre.IsField(uc.Args[0], paramsF) {
								continue
							}
							if s0, ok := ast.Unparen(uc.Args[0]).(*ast.SelectorExpr); !ok || pre.ObjOf(s0.X) != reqParam {
								continue
							}
							if u, ok := ast.Unparen(uc.Args[1]).(*ast.UnaryExpr); ok && u.Op == token.AND && pre.ObjOf(u.X) == holder && g.Dominates(g.VertexOf(uc), g.VertexOf(w.Stmt)) {
								okProv = true
							}
						}
					}
				}
				c.Check(okProv, "Preempt:id-from-this-notification", pre, call, "the cancelled id is decoded from the requestId member of this request's params (%s)", map[bool]string{true: "ok", false: why}[okProv])
			}
		}
		c.Pin("Cancel call sites in Preempt", n, 1)
		for i, r := range pre.Returns() {
			if len(r.Results) != 2 {
				continue
			}
			e := r.Results[1]
			ok := pre.ObjOf(e) == eNH
			if !ok {
				// an error variable under err != nil
				ok = hasAtom(g.GuardsAt(g.VertexOf(r)), func(a Atom) bool {
					return AtomSaysNil(a, false, func(x ast.Expr) bool { return pre.ObjOf(x) != nil && pre.ObjOf(x) == pre.ObjOf(e) })
				})
			}
			c.Check(ok && isNilIdent(r.Results[0]), "Preempt:return#"+itoa(i), pre, r, "Preempt returns (nil, ErrNotHandled) or (nil, decode error): the notification is queued like any other and never answered by the preempter")
		}
	})

	c.Rule("R-C04-3", "a handler context is cancelled by id only; the only cancel-everything loops are the reader-exit and first-write-failure closures", func() {
		cancelF := c.Field(pJ, "incomingRequest", "cancel")
		byID := c.Field(pJ, "inFlightState", "incomingByID")
		readErr := c.Field(pJ, "inFlightState", "readErr")
		writeErr := c.Field(pJ, "inFlightState", "writeErr")
		CancelFn := c.Fn(pJ, "Connection", "Cancel")
		procObj := c.FnObj(pJ, "Connection", "processResult")
		roles := map[string]int{}
		for _, f := range c.funcsWithLits(pJ) {
			for _, call := range f.AllCalls(f.Body, false) {
				sel, ok := ast.Unparen(call.Fun).(*ast.SelectorExpr)
				if !ok || !f.IsField(sel, cancelF) {
					continue
				}
				key := f.Name() + ":cancel"
				rs, _ := f.Enclosing(call, func(n ast.Node) bool { _, ok := n.(*ast.RangeStmt); return ok }).(*ast.RangeStmt)
				switch {
				case rs != nil && f.IsField(rs.X, byID):
					isDrain := len(f.FieldWrites(f.Body, readErr, false)) > 0
					isWriteFail := len(f.FieldWrites(f.Body, writeErr, false)) > 0
					if isWriteFail {
						fg := f.Graph()
						isWriteFail = hasAtom(fg.GuardsAt(fg.VertexOf(call)), func(a Atom) bool {
							return AtomSaysNil(a, true, func(e ast.Expr) bool { return f.IsField(e, writeErr) })
						})
					}
					roles["cancel-all"]++
					c.Check((isDrain || isWriteFail) && c.inFlightContext(f) != "", key+"-all", f, call, "cancel-all loop is in the reader-exit closure or in the first-write-failure closure (under writeErr == nil)")
				case f.Obj == CancelFn.Obj:
					// the request cancelled is incomingByID[id] for the parameter id
					v := f.ObjOf(sel.X)
					okSrc := false
					for _, s := range c.uifSites(f) {
						for _, w := range Writes(s.Lit.Body, false) {
							if s.Lit.ObjOf(w.LHS) == v && w.RHS != nil {
								if m, k, ok := indexOf(w.RHS); ok && s.Lit.IsField(m, byID) && s.Lit.ObjOf(k) == types.Object(CancelFn.ParamOfNamed(pJ, "ID")) {
									okSrc = true
								}
							}
						}
					}
					all := f.writesToVar(f.Body, v, true)
					roles["by-id"]++
					c.Check(okSrc && len(all) <= 2, key+"-by-id", f, call, "Cancel cancels exactly incomingByID[id] for its own parameter id")
				case f.Obj == procObj && f.ObjOf(sel.X) == types.Object(f.ParamOfNamed(pJ, "incomingRequest")):
					roles["own"]++
					c.Ok(key+"-own-request", f, call, "processResult cancels the context of the request it just finished (resource release)")
				default:
					c.Fail(key+"-unexpected", f, call, "a handler context is cancelled from an unexpected place: this can cancel a request other than the one named by the peer")
				}
			}
		}
		c.Pin("cancel-all loops", roles["cancel-all"], 2)
		c.Pin("cancel by id", roles["by-id"], 1)
	})

	c.Rule("R-C04-8", "cancelling one call never fails the streamable client's whole session: where the goroutines that read a call's response hit a read error, they mark the connection failed only if the call's own context is still alive (the response body is governed by that context)", func() {
		failObj := c.FnObj(pM, "streamableClientConn", "fail")
		n := 0
		for _, name := range []string{"handleJSON", "processStream"} {
			f := c.Fn(pM, "streamableClientConn", name)
			g := f.Graph()
			ctxP := f.CtxParam()
			c.Must(ctxP != nil, name+":has-the-call's-context", f, nil, name+" receives the context of the call whose response it reads: without it a failed read cannot be told from a cancelled call, and cancelling one call fails the session")
			// error variables that come from reading the response body
			readErrs := map[types.Object]int{} // error variable → vertex where the read bound it
			for _, call := range f.AllCalls(f.Body, false) {
				fn := f.Callee(call)
				if fn == nil {
					continue
				}
				if fn.FullName() == "io.ReadAll" {
					if as, ok := f.ParentOf(call).(*ast.AssignStmt); ok && len(as.Lhs) == 2 {
						readErrs[f.ObjOf(as.Lhs[1])] = g.VertexOf(call)
					}
				}
			}
			inspectNoLit(f.Body, func(x ast.Node) {
				if rs, ok := x.(*ast.RangeStmt); ok && rs.Value != nil {
					if ce, ok := ast.Unparen(rs.X).(*ast.CallExpr); ok && f.Callee(ce) != nil && f.Callee(ce).Name() == "scanEvents" {
						readErrs[f.ObjOf(rs.Value)] = g.VertexOf(rs.X)
					}
				}
			})
			c.Need(len(readErrs) > 0, name+": the error of reading the response")
			// the branches taken when that read failed (the variable not having been reassigned in between)
			onReadFailure := map[int]bool{}
			for _, ev := range g.condVertices() {
				for k := 0; k < 2; k++ {
					var atoms []Atom
					splitAtoms(g.Node(ev-1).(ast.Expr), k == 0, &atoms)
					for _, a := range atoms {
						for o, rv := range readErrs {
							if AtomSaysNil(a, false, func(e ast.Expr) bool { return f.ObjOf(e) == o }) && !g.writtenBetween(o, rv, ev-1) {
								seen, _ := g.reach([]int{g.succ[ev][k]}, nil, nil)
								seen[g.succ[ev][k]] = true
								for v, s := range seen {
									if s {
										onReadFailure[v] = true
									}
								}
							}
						}
					}
				}
			}
			for _, v := range g.callVertices(failObj) {
				guards := g.GuardsAt(v)
				if !onReadFailure[v] || !hasAtom(guards, func(a Atom) bool {
					return AtomSaysNil(a, false, func(e ast.Expr) bool { _, is := readErrs[f.ObjOf(e)]; return is })
				}) {
					continue // not on a read-error branch
				}
				// a malformed-event error is a protocol violation of the peer, whatever the context
				if hasAtom(guards, func(a Atom) bool {
					ce, ok := a.E.(*ast.CallExpr)
					return ok && a.Val && f.Callee(ce) != nil && f.Callee(ce).FullName() == "errors.Is" && len(ce.Args) == 2 && f.ObjOf(ce.Args[1]) == c.Obj(pM, "errMalformedEvent")
				}) && hasAtom(guards, func(a Atom) bool { return ctxAliveAtom(f, a, ctxP) }) {
					n++
					c.Ok(name+":fail-on-read-error#"+itoa(n), f, g.Node(v), "malformed event: fails the connection, and only after the context test")
					continue
				}
				n++
				c.Check(hasAtom(guards, func(a Atom) bool { return ctxAliveAtom(f, a, ctxP) }), name+":fail-on-read-error#"+itoa(n), f, g.Node(v), "c.fail after a failed read of the response is reached only when ctx.Err() == nil (guards: %s): a read that failed because the caller cancelled its call is not a broken connection", atomsString(guards))
			}
		}
		c.Pin("fail sites behind a response read error", n, 2)
		// the synchronous twin: Write fails the connection over a bad response only while the caller is still there (the
		// error body that checkResponse classifies is read under the call's context)
		wr := c.Fn(pM, "streamableClientConn", "Write")
		wg := wr.Graph()
		wctx := wr.CtxParam()
		crv := wg.callVertices(c.FnObj(pM, "streamableClientConn", "checkResponse"))
		c.Need(len(crv) >= 1 && wctx != nil, "Write: checkResponse call and context")
		m := 0
		for _, fv := range wg.callVertices(failObj) {
			if !wg.ReachableFrom(crv[0])[fv] {
				continue
			}
			m++
			guards := wg.GuardsAt(fv)
			c.Check(hasAtom(guards, func(a Atom) bool { return ctxAliveAtom(wr, a, wctx) }), "Write:fail-after-checkResponse-only-if-ctx-alive#"+itoa(m), wr, wg.Node(fv), "c.fail after checkResponse is reached only under ctx.Err() == nil (guards: %s)", atomsString(guards))
		}
		c.Pin("fail sites after checkResponse in Write", m, 1)
		// handleSSE: every site that fails the connection on behalf of a call does so only while that call's context is alive
		// (the function's own stated policy; its three sites must agree)
		hs := c.Fn(pM, "streamableClientConn", "handleSSE")
		hg := hs.Graph()
		hctx := hs.CtxParam()
		k := 0
		for _, fv := range hg.callVertices(failObj) {
			k++
			guards := hg.GuardsAt(fv)
			c.Check(hasAtom(guards, func(a Atom) bool { return ctxAliveAtom(hs, a, hctx) }), "handleSSE:fail-only-if-ctx-alive#"+itoa(k), hs, hg.Node(fv), "c.fail in handleSSE is reached only under ctx.Err() == nil (guards: %s)", atomsString(guards))
		}
		c.Pin("fail sites in handleSSE", k, 3)
	})

	c.Rule("R-C04-9", "one call's fate does not leak into another's: no HTTP round trip is made while a transport mutex is held (a POST the peer does not answer would otherwise block every other Write, Read and Close of that client), and the long-lived subscriptions/listen requests opened by Subscribe and by Connect live on a context of their own, not on the context of the call that opened them", func() {
		do := c.Std("net/http", "Client", "Do")
		n := 0
		for _, f := range c.funcsWithLits(pM) {
			for _, call := range f.CallsIn(f.Body, do, false) {
				n++
				held := map[string]bool{}
				for k := range f.heldLocal(call) {
					held[k] = true
				}
				for k := range c.lockEnv().heldAt(f, call) {
					held[k] = true
				}
				c.Check(len(held) == 0, "http-roundtrip-unlocked:"+f.Name()+"#"+itoa(n), f, call, "(*http.Client).Do is called with no mutex held (held: %s)", setString(held))
			}
		}
		c.Pin("http.Client.Do call sites in the transports", n, 4)
		// listen lifetimes
		sl := c.FnObj(pM, "ClientSession", "subscriptionsListen")
		m := 0
		for _, f := range c.funcsWithLits(pM) {
			for _, call := range f.CallsIn(f.Body, sl, false) {
				m++
				root, chain := ctxRoot(f, call.Args[0], 6)
				if root != "context.Background" {
					// a variable declared first and assigned in a branch: every value it is ever given must be detached
					if o := f.ObjOf(call.Args[0]); o != nil {
						all, any := true, false
						for _, w := range Writes(f.Root().Body, true) {
							as, isAs := w.Stmt.(*ast.AssignStmt)
							if f.ObjOf(w.LHS) != o || !isAs || len(as.Rhs) != 1 {
								continue
							}
							any = true
							r2, ch2 := ctxRoot(f, as.Rhs[0], 6)
							chain += " ← " + ch2
							if r2 != "context.Background" {
								all = false
							}
						}
						if all && any {
							root = "context.Background"
						}
					}
				}
				c.Check(root == "context.Background", "listen-context-detached:"+f.Name(), f, call, "the listen request's context is derived from context.Background() (chain: %s): cancelling the context that was passed to Subscribe/Connect after they returned must not cancel the listen, which is a different in-flight request", chain)
			}
		}
		c.Pin("subscriptions/listen openers", m, 2)
	})

	c.Rule("R-C04-13", "the request a cancellation names is found whatever its id: the requestId of notifications/cancelled is decoded from its raw text (an id beyond 2^53 that went through float64 names a neighbour — the wrong handler is cancelled, the right one keeps running); where a float64 fast path exists it is evaluated at the first inexact magnitudes and must not be taken there)", func() { c04RequestIDExact(c) })
	c.Import("R-C04-12", "a cancellation names exactly one in-flight request: a refused duplicate of an in-flight id does not take over (and later retire) the original's table entry, so the original stays cancellable", "C02", "R-C02-3", nil)
	c.Import("R-C04-7", "cancelling one call disturbs no other: the cancellation notice is a valid message of the protocol version in use, so the peer does not answer it with an error that the transport treats as the end of the session", "C12", "R-C12-7", nil)

	c.Rule("R-C04-6", "an undeliverable notice does not break the session: a failed write marks the writer broken only when the write's own context has not ended and the error is not a per-message rejection", func() { ruleWriteErrGuard(c) })

	c.Rule("R-C04-4", "a late response to an abandoned call is discarded without effect (shared with R-C01-5)", func() { responseArmRule(c) })

	c.Rule("R-C04-5", "cancel notices can still be written while shutting down as long as calls are in flight", func() {
		wr := c.Fn(pJ, "Connection", "write")
		isCall := c.FnObj(pJ, "Request", "IsCall")
		outN := c.Field(pJ, "inFlightState", "outgoingNotifications")
		shut := c.FnObj(pJ, "inFlightState", "shuttingDown")
		n := 0
		for _, s := range c.uifSites(wr) {
			l := s.Lit
			if len(l.CallsIn(l.Body, shut, false)) == 0 {
				continue
			}
			n++
			// the early return that bypasses the shuttingDown test
			lg := l.Graph()
			for _, r := range l.Returns() {
				rv := lg.VertexOf(r)
				if r.Pos() == l.Body.End()-1 { // synthetic
					continue
				}
				guards := lg.GuardsAt(rv)
				okG := hasAtom(guards, func(a Atom) bool { return atomSaysIsCall(l, a, isCall, false) }) && hasAtom(guards, func(a Atom) bool {
					x, y, op, ok := binaryCmp(a.E)
					z, isZ := l.ConstInt(y)
					return ok && op == token.GTR && a.Val && l.IsField(x, outN) && isZ && z == 0
				})
				c.Check(okG, "write:notification-bypass", l, r, "only a notification admitted by Notify (outgoingNotifications > 0) bypasses the shutting-down test (guards: %s)", atomsString(guards))
				// ... and every such notification does: the branch condition has no further conjunct
				if ifs, ok := l.Enclosing(r, func(n ast.Node) bool { _, ok := n.(*ast.IfStmt); return ok }).(*ast.IfStmt); ok {
					var leaves []Atom
					splitAtoms(ifs.Cond, true, &leaves)
					for _, a := range leaves {
						if b, isB := a.E.(*ast.BinaryExpr); isB && b.Op == token.LAND {
							continue
						}
						if u, isU := a.E.(*ast.UnaryExpr); isU && u.Op == token.NOT {
							continue
						}
						rec := false
						if id, isId := a.E.(*ast.Ident); isId && a.Val && l.ObjOf(id) != nil && l.ObjOf(id) == typeAssertOKVar(l, "internal/jsonrpc2", "Request") {
							rec = true // the comma-ok of the type assertion in the if's init
						}
						if atomSaysIsCall(l, a, isCall, false) {
							rec = true
						}
						if x, y, op, isCmp := binaryCmp(a.E); isCmp && op == token.GTR && a.Val && l.IsField(x, outN) {
							if z, isZ := l.ConstInt(y); isZ && z == 0 {
								rec = true
							}
						}
						if !rec {
							c.Fail("write:notification-bypass-extra-condition", l, a.E, "the bypass is narrowed by an additional condition %s: a cancel notice admitted by Notify may now be refused during shutdown and never reach the peer", a.String())
						}
					}
				}
			}
		}
		c.Pin("write admission closure", n, 1)
		nf := c.Fn(pJ, "Connection", "Notify")
		outC := c.Field(pJ, "inFlightState", "outgoingCalls")
		byID := c.Field(pJ, "inFlightState", "incomingByID")
		m := 0
		for _, s := range c.uifSites(nf) {
			l := s.Lit
			for _, sc := range l.CallsIn(l.Body, shut, false) {
				m++
				lg := l.Graph()
				guards := lg.GuardsAt(lg.VertexOf(sc))
				seen := map[*types.Var]bool{}
				var flat []Atom
				for _, a := range guards {
					splitAtoms(a.E, a.Val, &flat)
				}
				for _, a := range append(append([]Atom{}, guards...), flat...) {
					x, y, op, ok := binaryCmp(a.E)
					if !ok {
						continue
					}
					ce, isCe := ast.Unparen(x).(*ast.CallExpr)
					z, isZ := l.ConstInt(y)
					// len(x) == 0, in any spelling: == 0 / <= 0 / < 1 hold, or != 0 / > 0 / >= 1 do not
					saysEmpty := isZ && ((a.Val && ((op == token.EQL && z == 0) || (op == token.LEQ && z == 0) || (op == token.LSS && z == 1))) ||
						(!a.Val && ((op == token.NEQ && z == 0) || (op == token.GTR && z == 0) || (op == token.GEQ && z == 1))))
					if isCe && l.BuiltinName(ce) == "len" && saysEmpty {
						for _, fld := range []*types.Var{outC, byID} {
							if l.IsField(ce.Args[0], fld) {
								seen[fld] = true
							}
						}
					}
				}
				c.Check(seen[outC] && seen[byID], "Notify:refuse-only-when-nothing-in-flight", l, sc, "Notify applies the shutting-down refusal only when no outgoing and no incoming call is in flight (guards: %s)", atomsString(guards))
			}
		}
		c.Pin("Notify admission test", m, 1)
	})
}

func clauseTestsCtxErr(f *Func, cc *ast.CaseClause) bool {
	for _, e := range cc.List {
		if x, twn, ok := NilTest(e); ok && !twn {
			if ce, ok := ast.Unparen(x).(*ast.CallExpr); ok {
				if fn := f.Callee(ce); fn != nil && fn.Name() == "Err" && fn.Pkg() != nil && fn.Pkg().Path() == "context" {
					return true
				}
			}
		}
	}
	return false
}

// requestIDIsCallID: e is &CancelledParams{..., RequestID: <ac>.ID().Raw()}.
func requestIDIsCallID(f *Func, e ast.Expr, ac types.Object) bool {
	// through a builder function: helper(…, call, …) whose own CancelledParams literal names its AsyncCall parameter
	if bc, isCall := ast.Unparen(e).(*ast.CallExpr); isCall {
		if fn := f.Callee(bc); fn != nil {
			if g := f.Prog.FuncOf(fn); g != nil {
				acParam := g.ParamOfNamed(pJ, "AsyncCall")
				passes := false
				for i, a := range bc.Args {
					if f.ObjOf(a) == ac && i < len(g.NonRecvParams()) && g.NonRecvParams()[i] == acParam {
						passes = true
					}
				}
				if !passes || acParam == nil {
					return false
				}
				found := false
				ast.Inspect(g.Body, func(n ast.Node) bool {
					if u, ok := n.(*ast.UnaryExpr); ok && u.Op == token.AND {
						if _, isLit := u.X.(*ast.CompositeLit); isLit && requestIDIsCallID(g, u, acParam) {
							found = true
						}
					}
					return true
				})
				return found
			}
		}
		return false
	}
	u, ok := ast.Unparen(e).(*ast.UnaryExpr)
	if !ok {
		return false
	}
	cl, ok := u.X.(*ast.CompositeLit)
	if !ok {
		return false
	}
	for _, el := range cl.Elts {
		kv, ok := el.(*ast.KeyValueExpr)
		if !ok || exprStr(kv.Key) != "RequestID" {
			continue
		}
		raw, ok := ast.Unparen(kv.Value).(*ast.CallExpr)
		if !ok {
			return false
		}
		s1, ok := ast.Unparen(raw.Fun).(*ast.SelectorExpr)
		if !ok || s1.Sel.Name != "Raw" {
			return false
		}
		idc, ok := ast.Unparen(s1.X).(*ast.CallExpr)
		if !ok {
			return false
		}
		s2, ok := ast.Unparen(idc.Fun).(*ast.SelectorExpr)
		return ok && s2.Sel.Name == "ID" && f.ObjOf(s2.X) == ac
	}
	return false
}

// fieldJSONName returns the JSON member name of the struct field selected by sel.
func fieldJSONName(f *Func, sel *ast.SelectorExpr) string {
	s, ok := f.Info().Selections[sel]
	if !ok {
		return ""
	}
	recv := s.Recv()
	for {
		if p, ok := recv.Underlying().(*types.Pointer); ok {
			recv = p.Elem()
			continue
		}
		break
	}
	st, ok := recv.Underlying().(*types.Struct)
	if !ok {
		return ""
	}
	for i := 0; i < st.NumFields(); i++ {
		if st.Field(i) == s.Obj() {
			name, _ := jsonTag(st.Tag(i), st.Field(i).Name())
			return name
		}
	}
	return ""
}

// jsonTag parses a struct tag: returns the JSON name and whether omitempty/omitzero is set.
func jsonTag(tag, fieldName string) (name string, omit bool) {
	v, ok := reflect.StructTag(tag).Lookup("json")
	if !ok {
		return fieldName, false
	}
	parts := splitComma(v)
	name = parts[0]
	if name == "" {
		name = fieldName
	}
	for _, p := range parts[1:] {
		if p == "omitempty" || p == "omitzero" {
			omit = true
		}
	}
	return
}

func splitComma(s string) []string {
	var out []string
	cur := ""
	for _, r := range s {
		if r == ',' {
			out = append(out, cur)
			cur = ""
		} else {
			cur += string(r)
		}
	}
	return append(out, cur)
}

// ruleWriteErrGuard is shared by R-C04-6 and R-C13-4.
func ruleWriteErrGuard(c *Ctx) {
	wr := c.Fn(pJ, "Connection", "write")
	g := wr.Graph()
	writeErr := c.Field(pJ, "inFlightState", "writeErr")
	errIs := c.Std("errors", "", "Is")
	eRej := c.Obj(pJ, "ErrRejected")
	ctxParam := wr.CtxParam()
	n := 0
	for _, s := range c.uifSites(wr) {
		if len(s.Lit.FieldWrites(s.Lit.Body, writeErr, false)) == 0 {
			continue
		}
		n++
		guards := g.GuardsAt(g.VertexOf(s.Call))
		// ... together with what guards the assignment inside the locked closure; a boolean local of the function that
		// is defined once stands for its definition (`broken := ctx.Err() == nil && !errors.Is(err, ErrRejected)`)
		lg := s.Lit.Graph()
		for _, fw := range s.Lit.FieldWrites(s.Lit.Body, writeErr, false) {
			guards = append(guards, lg.GuardsAt(lg.VertexOf(fw))...)
		}
		for i := 0; i < len(guards); i++ {
			a := guards[i]
			if _, isID := ast.Unparen(a.E).(*ast.Ident); !isID {
				continue
			}
			if def := wr.valueOf(a.E); def != a.E {
				// ... provided it was computed after the write returned: the context is asked when the failure is classified,
				// a sample taken before the write blames a context that expired during it on the transport
				afterWrite := false
				for v := 0; v < g.N; v++ {
					if g.Node(v) == nil {
						continue
					}
					for _, cl := range wr.AllCalls(g.Node(v), false) {
						if fn := wr.Callee(cl); fn != nil && fn.Name() == "Write" {
							if sel, ok := ast.Unparen(cl.Fun).(*ast.SelectorExpr); ok && strings.HasSuffix(wr.FieldPath(sel.X), ".writer") && g.ReachableFrom(v)[g.VertexOf(def)] && !g.ReachableFrom(g.VertexOf(def))[v] {
								afterWrite = true
							}
						}
					}
				}
				if b, isB := wr.TypeOf(a.E).Underlying().(*types.Basic); isB && b.Info()&types.IsBoolean != 0 && afterWrite {
					splitAtoms(def, a.Val, &guards)
				}
			}
		}
		ctxAlive := hasAtom(guards, func(a Atom) bool {
			return AtomSaysNil(a, true, func(e ast.Expr) bool {
				ce, ok := ast.Unparen(e).(*ast.CallExpr)
				if !ok {
					return false
				}
				sel, ok := ast.Unparen(ce.Fun).(*ast.SelectorExpr)
				return ok && sel.Sel.Name == "Err" && wr.ObjOf(sel.X) == ctxParam
			})
		})
		notRejected := hasAtom(guards, func(a Atom) bool {
			ce, ok := a.E.(*ast.CallExpr)
			return ok && !a.Val && wr.IsCallTo(ce, errIs) && len(ce.Args) == 2 && wr.ObjOf(ce.Args[1]) == eRej
		})
		// … and only for a write that actually failed (the error tested is the writer's)
		failed := hasAtom(guards, func(a Atom) bool {
			return AtomSaysNil(a, false, func(e ast.Expr) bool {
				o, ok := wr.ObjOf(e).(*types.Var)
				return ok && !o.IsField() && types.Identical(o.Type(), types.Universe.Lookup("error").Type())
			})
		})
		c.Check(failed, "write:broken-only-after-a-failed-write", wr, s.Call, "writeErr is set only when the write returned a non-nil error (guards: %s); without that test every successful write would cancel all in-flight handlers", atomsString(guards))
		c.Check(ctxAlive && notRejected, "write:broken-only-if-ctx-alive-and-not-rejected", wr, s.Call,
			"writeErr (which cancels every handler and refuses all further calls) is set only under ctx.Err() == nil && !errors.Is(err, ErrRejected) (guards: %s): a cancel notice that times out or is rejected must leave the session usable", atomsString(guards))
	}
	c.Pin("writeErr closure", n, 1)
}

// ctxAliveAtom: the atom says ctx.Err() == nil for the given context parameter (either polarity spelling).
func ctxAliveAtom(f *Func, a Atom, ctxP *types.Var) bool {
	return AtomSaysNil(a, true, func(e ast.Expr) bool {
		ce, ok := ast.Unparen(e).(*ast.CallExpr)
		if !ok {
			return false
		}
		sel, ok := ast.Unparen(ce.Fun).(*ast.SelectorExpr)
		return ok && sel.Sel.Name == "Err" && f.ObjOf(sel.X) == types.Object(ctxP)
	})
}

// c04RequestIDExact decides Preempt:requestId-exact (the Preempt part of R-C19-1, generalised).  Without a MakeID call in
// the preempter the id must come from one DecodeID call, as before.  With a MakeID call whose argument may hold a
// float64 (a fast path for ids float64 represents exactly), the function's graph is evaluated under the valuation "the
// decoded requestId is a float64 of magnitude m" for the first magnitudes at which float64 stops being exact
// (2^53 itself is the image of 2^53 and of 2^53+1): MakeID must be unreachable there and DecodeID reachable.
func c04RequestIDExact(c *Ctx) {
	pre := c.Fn(pM, "canceller", "Preempt")
	decodeID := c.FnObj(pJ, "", "DecodeID")
	makeID := c.FnObj(pJ, "", "MakeID")
	g := pre.Graph()
	nDec := len(pre.CallsIn(pre.Body, decodeID, false))
	var floaty []*ast.CallExpr
	for _, call := range pre.CallsIn(pre.Body, makeID, false) {
		if len(call.Args) != 1 {
			continue
		}
		if b, isB := pre.TypeOf(call.Args[0]).Underlying().(*types.Basic); isB && b.Info()&types.IsFloat == 0 {
			continue // a string or an integer: nothing is lost
		}
		floaty = append(floaty, call)
	}
	const key = "Preempt:requestId-exact"
	if len(floaty) == 0 {
		c.Check(nDec == 1 && len(pre.CallsIn(pre.Body, makeID, false)) == 0, key, pre, nil, "the requestId of notifications/cancelled is decoded with DecodeID from its raw text")
		return
	}
	isFloatVar := func(o types.Object) bool {
		v, ok := o.(*types.Var)
		if !ok || v.IsField() {
			return false
		}
		b, isB := v.Type().Underlying().(*types.Basic)
		return isB && b.Info()&types.IsFloat != 0
	}
	// the comma-ok results of assertions to float64
	okVars := map[types.Object]bool{}
	for _, w := range Writes(pre.Body, false) {
		as, isAs := w.Stmt.(*ast.AssignStmt)
		if !isAs || len(as.Lhs) != 2 || len(as.Rhs) != 1 {
			continue
		}
		if ta, isTA := ast.Unparen(as.Rhs[0]).(*ast.TypeAssertExpr); isTA && ta.Type != nil {
			if b, isB := pre.TypeOf(ta.Type).Underlying().(*types.Basic); isB && b.Info()&types.IsFloat != 0 {
				if o := pre.ObjOf(as.Lhs[1]); o != nil {
					okVars[o] = true
				}
			}
		}
	}
	mentionsFloat := func(e ast.Expr) bool {
		found := false
		ast.Inspect(e, func(n ast.Node) bool {
			if id, ok := n.(*ast.Ident); ok && pre.ObjOf(id) != nil && isFloatVar(pre.ObjOf(id)) {
				found = true
			}
			return true
		})
		return found
	}
	var valueAt func(e ast.Expr, m constant.Value) constant.Value
	valueAt = func(e ast.Expr, m constant.Value) constant.Value {
		e = ast.Unparen(e)
		if tv, ok := pre.Info().Types[e]; ok && tv.Value != nil {
			return constant.ToFloat(tv.Value)
		}
		switch x := e.(type) {
		case *ast.Ident:
			if o := pre.ObjOf(x); o != nil && isFloatVar(o) {
				return m
			}
		case *ast.UnaryExpr:
			if v := valueAt(x.X, m); v != nil && v.Kind() != constant.Unknown && (x.Op == token.SUB || x.Op == token.ADD) {
				return constant.UnaryOp(x.Op, v, 0)
			}
		case *ast.CallExpr:
			if len(x.Args) != 1 {
				return nil
			}
			if tv, ok := pre.Info().Types[x.Fun]; ok && tv.IsType() {
				if b, isB := tv.Type.Underlying().(*types.Basic); isB && b.Info()&types.IsFloat != 0 {
					return valueAt(x.Args[0], m)
				}
				return nil
			}
			if fn := pre.Callee(x); fn != nil && fn.FullName() == "math.Abs" {
				if v := valueAt(x.Args[0], m); v != nil && v.Kind() != constant.Unknown {
					if constant.Sign(v) < 0 {
						return constant.UnaryOp(token.SUB, v, 0)
					}
					return v
				}
			}
		}
		return nil
	}
	two53 := constant.Shift(constant.MakeInt64(1), token.SHL, 53)
	mags := []constant.Value{
		constant.ToFloat(two53),
		constant.ToFloat(constant.BinaryOp(two53, token.ADD, constant.MakeInt64(2))),
		constant.ToFloat(constant.Shift(constant.MakeInt64(1), token.SHL, 62)),
	}
	for _, m := range append([]constant.Value{}, mags...) {
		mags = append(mags, constant.UnaryOp(token.SUB, m, 0))
	}
	opaque := false
	viaFloat, noRaw := "", false
	for _, m := range mags {
		leaf := func(e ast.Expr) tri {
			e = ast.Unparen(e)
			if id, isID := e.(*ast.Ident); isID {
				if okVars[pre.ObjOf(id)] {
					return triTrue
				}
				return triUnknown
			}
			if b, isB := e.(*ast.BinaryExpr); isB {
				switch b.Op {
				case token.EQL, token.NEQ, token.LSS, token.LEQ, token.GTR, token.GEQ:
					if !mentionsFloat(b) {
						return triUnknown
					}
					l, r := valueAt(b.X, m), valueAt(b.Y, m)
					if l != nil && r != nil && l.Kind() != constant.Unknown && r.Kind() != constant.Unknown {
						if constant.Compare(l, b.Op, r) {
							return triTrue
						}
						return triFalse
					}
				}
			}
			if mentionsFloat(e) {
				opaque = true
			}
			return triUnknown
		}
		reach := g.ReachUnder(leaf, nil)
		for _, call := range floaty {
			if v := g.VertexOf(call); v >= 0 && reach[v] && viaFloat == "" {
				viaFloat = "MakeID(" + exprStr(call.Args[0]) + ") is reached for a float64 requestId of value " + m.ExactString()
			}
		}
		rawSeen := false
		for _, call := range pre.CallsIn(pre.Body, decodeID, false) {
			if v := g.VertexOf(call); v >= 0 && reach[v] {
				rawSeen = true
			}
		}
		if !rawSeen {
			noRaw = true
		}
	}
	switch {
	case (viaFloat != "" || noRaw) && opaque:
		c.Undecided(key, pre, nil, "the requestId goes through MakeID behind a test on the float64 value that this rule cannot evaluate: whether every id at or beyond 2^53 is decoded from its raw text is not decided here")
	case viaFloat != "":
		c.Fail(key, pre, floaty[0], "an id float64 cannot tell from its neighbour is taken from the float64: %s (2^53 is what both 2^53 and 2^53+1 decode to, so the cancellation names the wrong request)", viaFloat)
	case noRaw:
		c.Fail(key, pre, nil, "no DecodeID of the raw requestId is reached for ids at or beyond 2^53")
	default:
		c.Ok(key, pre, nil, "the requestId is taken from its float64 form only where that is exact (|id| < 2^53); every other numeric id is decoded with DecodeID from its raw text")
	}
}

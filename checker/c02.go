package main

import (
	"go/ast"
	"go/token"
	"go/types"
	"slices"
	"strings"
)

func init() { register("C02", rulesC02, deepC02) }

// flagCorrelated verifies the "closure sets a flag, caller branches on it" idiom across an
// updateInFlight call: inside the literal, `stmt` executes only when E is nil (litNil) and every
// write to E in the literal precedes that test; in the outer function E is not written on any path
// from the closure call to `use`.
func flagCorrelated(outer *Func, site uifSite, E types.Object, stmt ast.Node, use ast.Node) (bool, string) {
	if E == nil {
		return false, "no flag variable"
	}
	l := site.Lit
	lg := l.Graph()
	sv := lg.VertexOf(stmt)
	if sv < 0 {
		return false, "statement not found in closure"
	}
	if !hasAtom(lg.GuardsAt(sv), func(a Atom) bool {
		return AtomSaysNil(a, true, func(e ast.Expr) bool { return l.ObjOf(e) == E })
	}) {
		return false, "the closure's action is not guarded by " + E.Name() + " == nil"
	}
	for _, w := range l.writesToVar(l.Body, E, false) {
		if wv := lg.VertexOf(w); wv == sv || lg.ReachableFrom(sv)[wv] {
			return false, E.Name() + " is written after the guarded action inside the closure"
		}
	}
	g := site.In.Graph()
	uv, tv := g.VertexOf(site.Call), g.VertexOf(use)
	for _, w := range outer.writesToVar(site.In.Body, E, false) {
		wv := g.VertexOf(w)
		if wv != uv && g.ReachableFrom(uv)[wv] && (wv == tv || g.ReachableFrom(wv)[tv]) {
			return false, E.Name() + " is reassigned between the closure and its test"
		}
	}
	return true, ""
}

func rulesC02(c *Ctx) {
	proc := c.FnObj(pJ, "Connection", "processResult")
	incoming := c.Field(pJ, "inFlightState", "incoming")
	byID := c.Field(pJ, "inFlightState", "incomingByID")
	queue := c.Field(pJ, "inFlightState", "handlerQueue")

	c.Rule("R-C02-1", "every accepted request reaches processResult exactly once (directly, or through the handler queue); the in-flight counter is paired", func() {
		ar := c.Fn(pJ, "Connection", "acceptRequest")
		g := ar.Graph()
		var inc, enq *uifSite
		var enqStmt ast.Node
		for _, s := range c.uifSites(ar) {
			s := s
			if s.In != ar {
				continue
			}
			for _, w := range s.Lit.FieldWrites(s.Lit.Body, incoming, false) {
				if id, ok := w.(*ast.IncDecStmt); ok && id.Tok == token.INC {
					inc = &s
				}
			}
			for _, w := range s.Lit.FieldWrites(s.Lit.Body, queue, false) {
				enq, enqStmt = &s, w
			}
		}
		c.Need(inc != nil && enq != nil, "acceptRequest: counting closure and enqueue closure")
		iv, ev := g.VertexOf(inc.Call), g.VertexOf(enq.Call)
		c.Check(iv == g.Entry || func() bool { ok, _ := g.MustPass(g.Entry, g.Exits, func(v int) bool { return v == iv }); return ok }(),
			"acceptRequest:count-on-every-path", ar, inc.Call, "incoming++ happens on every path through acceptRequest")
		// unconditional increment inside the closure
		lg := inc.Lit.Graph()
		var incStmt ast.Node
		for _, w := range inc.Lit.FieldWrites(inc.Lit.Body, incoming, false) {
			incStmt = w
		}
		okInc, _ := lg.MustPass(lg.Entry, lg.Exits, func(v int) bool { return v == lg.VertexOf(incStmt) })
		c.Check(okInc || lg.VertexOf(incStmt) == lg.Entry, "acceptRequest:count-unconditional", inc.Lit, incStmt, "the counting closure increments on all of its paths")

		pvs := g.callVertices(proc)
		isP := func(v int) bool {
			for _, p := range pvs {
				if p == v {
					return true
				}
			}
			return false
		}
		ok1, path := g.MustPass(iv, g.Exits, func(v int) bool { return isP(v) || v == ev })
		c.paths++
		if ok1 {
			c.Ok("acceptRequest:answered-or-enqueued", ar, nil, "every path from the counting closure to return calls processResult or runs the enqueue closure")
		} else {
			c.Fail("acceptRequest:answered-or-enqueued", ar, nil, "a path returns with the request counted but neither answered nor enqueued (%s): the call is never answered and Close never becomes idle", g.PathString(path))
		}
		for _, p := range pvs {
			again := false
			for _, q := range pvs {
				if g.ReachableFrom(p)[q] {
					again = true
				}
			}
			c.Check(!again, "acceptRequest:no-second-processResult", ar, g.Node(p), "no second processResult is reachable after this one (a second response / double decrement)")
		}
		// processResult after the enqueue closure only on the closure's refusal outcome
		for _, p := range pvs {
			if !g.ReachableFrom(ev)[p] {
				continue
			}
			var E types.Object
			for _, a := range g.GuardsAt(p) {
				if x, twn, ok := NilTest(a.E); ok && twn != a.Val {
					if o := ar.ObjOf(x); o != nil && len(enq.Lit.writesToVar(enq.Lit.Body, o, false)) > 0 {
						E = o
					}
				}
			}
			okc, why := flagCorrelated(ar, *enq, E, enqStmt, g.Node(p))
			c.Check(okc, "acceptRequest:refusal-xor-enqueue", ar, g.Node(p), "processResult after the enqueue closure runs exactly when the closure refused to enqueue %s", why)
		}
		// ... and on the refusal outcome processResult is called on every path
		for _, cv := range g.condVertices() {
			if !g.ReachableFrom(ev)[cv] {
				continue
			}
			cond := g.Node(cv - 1).(ast.Expr)
			if x, twn, ok := NilTest(cond); ok && len(enq.Lit.writesToVar(enq.Lit.Body, ar.ObjOf(x), false)) > 0 {
				t, f := g.BranchTargets(cv - 1)
				tgt := t
				if twn {
					tgt = f
				}
				okr, p2 := g.MustPassIncl(tgt, g.Exits, isP)
				c.Check(okr || isP(tgt), "acceptRequest:refused-is-answered", ar, cond, "when the enqueue closure refuses, every path answers the request %s", g.PathString(p2))
			}
		}

		// handleAsync
		ha := c.Fn(pJ, "Connection", "handleAsync")
		hg := ha.Graph()
		handle := c.P.StdFunc(modPath+"/"+pJ, "Handler", "Handle")
		c.Need(handle != nil, "jsonrpc2.Handler.Handle")
		gos := ha.goStmts()
		c.Need(len(gos) == 1, "handleAsync: one go statement")
		lit := ha.LitArgOfGo(gos[0])
		c.Need(lit != nil, "handleAsync: go literal")
		c.touch(lit)
		gv := hg.VertexOf(gos[0])
		hp := hg.callVertices(proc)
		// dequeue closure
		var deq *uifSite
		for _, s := range c.uifSites(ha) {
			s := s
			if s.In == ha && len(s.Lit.FieldWrites(s.Lit.Body, queue, false)) > 0 {
				deq = &s
			}
		}
		c.Need(deq != nil, "handleAsync: dequeue closure")
		dv := hg.VertexOf(deq.Call)
		// from dequeue, every path back to the dequeue or to exit passes processResult, the go stmt, or the req==nil return
		retNil := -1
		for _, x := range hg.Exits {
			if hasAtom(hg.GuardsAt(x), func(a Atom) bool { return AtomSaysNil(a, true, func(e ast.Expr) bool { return true }) }) {
				retNil = x
			}
		}
		okh, ph := hg.MustPass(dv, append([]int{dv}, hg.Exits...), func(v int) bool {
			if v == gv || v == retNil {
				return true
			}
			for _, p := range hp {
				if p == v {
					return true
				}
			}
			return false
		})
		c.paths++
		if okh {
			c.Ok("handleAsync:each-dequeued-answered", ha, nil, "every iteration answers the dequeued request (cancelled path) or hands it to the handler goroutine")
		} else {
			c.Fail("handleAsync:each-dequeued-answered", ha, nil, "a dequeued request can be dropped (%s)", hg.PathString(ph))
		}
		for _, p := range hp {
			c.Check(!hg.ReachableFromAvoiding(p, dv)[gv] && !hg.ReachableFromAvoiding(gv, dv)[p], "handleAsync:not-both", ha, hg.Node(p),
				"a request answered on the cancelled path is not also handed to the handler goroutine in the same iteration")
		}
		lg2 := lit.Graph()
		lp := lg2.callVertices(proc)
		lh := lg2.callVertices(handle)
		c.Need(len(lh) == 1, "handler goroutine: one Handle call")
		okl, pl := lg2.MustPass(lg2.Entry, lg2.Exits, func(v int) bool {
			for _, p := range lp {
				if p == v {
					return true
				}
			}
			return false
		})
		c.Check(okl && len(lp) == 1, "handler-goroutine:processResult-once", lit, nil, "the handler goroutine calls processResult exactly once on every path %s", lg2.PathString(pl))
		if len(lp) == 1 {
			c.Check(lg2.Dominates(lh[0], lp[0]), "handler-goroutine:after-Handle", lit, lg2.Node(lp[0]), "processResult follows Handle")
		}

		// counter pairing
		nInc, nDec := 0, 0
		for _, f := range c.funcsWithLits(pJ) {
			for _, w := range f.FieldWrites(f.Body, incoming, false) {
				id, ok := w.(*ast.IncDecStmt)
				root := f.Root()
				switch {
				case ok && id.Tok == token.INC:
					nInc++
					c.Check(root.Obj != nil && root.Obj.Name() == "acceptRequest", "incoming++:"+f.Name(), f, w, "incoming is incremented only when a request is accepted")
				case ok && id.Tok == token.DEC:
					nDec++
					c.Check(root.Obj == proc, "incoming--:"+f.Name(), f, w, "incoming is decremented only in processResult")
				default:
					c.Fail("incoming-write:"+f.Name(), f, w, "incoming is written other than by ++/--")
				}
			}
		}
		c.Pin("incoming++", nInc, 1)
		c.Pin("incoming--", nDec, 1)
		pr := c.Fn(pJ, "Connection", "processResult")
		pg := pr.Graph()
		for _, s := range c.uifSites(pr) {
			if len(s.Lit.FieldWrites(s.Lit.Body, incoming, false)) > 0 {
				sv := pg.VertexOf(s.Call)
				okd, pd := pg.MustPass(pg.Entry, pg.Exits, func(v int) bool { return v == sv })
				c.Check(okd, "processResult:decrement-on-every-path", pr, s.Call, "every path through processResult decrements the in-flight counter %s", pg.PathString(pd))
			}
		}
		total := 0
		for _, f := range c.funcsWithLits(pJ) {
			total += len(f.CallsIn(f.Body, proc, false))
		}
		c.Pin("processResult call sites", total, 5)
	})

	c.Rule("R-C02-2", "responses are built only in processResult, carry the request's own id, and the id leaves the index before the write; notifications are never answered", func() {
		newResp := c.FnObj(pJ, "", "NewResponse")
		write := c.FnObj(pJ, "Connection", "write")
		pr := c.Fn(pJ, "Connection", "processResult")
		idF := c.Field(pJ, "Request", "ID")
		isCall := c.FnObj(pJ, "Request", "IsCall")
		n := 0
		for _, rel := range []string{pJ, pM} {
			for _, f := range c.funcsWithLits(rel) {
				for _, call := range f.CallsIn(f.Body, newResp, false) {
					n++
					c.Check(f == pr, "NewResponse:"+f.Name(), f, call, "NewResponse is called only from processResult")
				}
			}
		}
		c.Pin("NewResponse sites", n, 1)
		reqParam := pr.ParamOfNamed(pJ, "incomingRequest")
		c.Need(reqParam != nil, "processResult: parameter req")
		g := pr.Graph()
		for _, call := range pr.CallsIn(pr.Body, newResp, false) {
			a0 := ast.Unparen(call.Args[0])
			sel, _ := a0.(*ast.SelectorExpr)
			ok := sel != nil && pr.IsField(sel, idF) && pr.ObjOf(sel.X) == reqParam
			c.Check(ok, "processResult:response-id-is-request-id", pr, call, "the response id is req.ID of the request being answered (got %s)", exprStr(a0))
			c.Check(len(pr.writesToVar(pr.Body, reqParam, true)) == 0, "processResult:req-not-reassigned", pr, call, "req is never reassigned in processResult")
			// id untouched inside processResult
			idWrites := 0
			for _, w := range Writes(pr.Body, true) {
				if pr.IsField(w.LHS, idF) {
					idWrites++
				}
			}
			c.Check(idWrites == 0, "processResult:id-not-rewritten", pr, call, "the request id is not rewritten before the response is built")
			rv := g.VertexOf(call)
			c.Check(hasAtom(g.GuardsAt(rv), func(a Atom) bool {
				ce, ok := a.E.(*ast.CallExpr)
				return ok && a.Val && pr.IsCallTo(ce, isCall)
			}), "processResult:response-only-for-calls", pr, call, "a response is built only under req.IsCall()")
		}
		wvs := g.callVertices(write)
		c.Pin("processResult write sites", len(wvs), 1)
		// a call is answered on every path: behind the IsCall() edge no exit is reached without the write, whatever the
		// handler returned (an unencodable result included — D17), and what is written is a value built by NewResponse
		callEdges := g.edgesWhere(func(a Atom) bool {
			ce, ok := a.E.(*ast.CallExpr)
			return ok && a.Val && pr.IsCallTo(ce, isCall)
		})
		c.Pin("processResult IsCall edges", len(callEdges), 1)
		for _, ev := range callEdges {
			okp, path := g.MustPassIncl(ev, g.Exits, g.hasCall(write))
			c.Check(okp, "processResult:call-always-answered", pr, g.Node(ev), "behind req.IsCall() every path writes a response %s", g.PathString(path))
		}
		respVar := pr.VarFromCall(newResp, 0)
		if respVar != nil {
			c.Check(len(pr.writesToVar(pr.Body, respVar, true)) == len(pr.CallsIn(pr.Body, newResp, false)), "processResult:response-only-from-NewResponse", pr, nil, "the response variable is assigned by NewResponse and by nothing else")
		}
		for _, wv := range wvs {
			wc := pr.CallsIn(g.Node(wv), write, false)
			okr := len(wc) == 1 && len(wc[0].Args) == 2 && respVar != nil && pr.ObjOf(wc[0].Args[1]) == respVar
			c.Check(okr, "processResult:writes-the-built-response", pr, g.Node(wv), "the message written is the value built by NewResponse(req.ID, …)")
			// the response is written under a context that cannot be cancelled: req.ctx ends when the peer cancels the call
			// (or the handler finishes), and the transports' Write refuse a done context — the response would be dropped
			// and, in a batch, the whole batch reply withheld
			okCtx := false
			if len(wc) == 1 && len(wc[0].Args) == 2 {
				switch a0 := ast.Unparen(wc[0].Args[0]).(type) {
				case *ast.CompositeLit:
					okCtx = isNamedType(pr.TypeOf(a0), modPath+"/"+pJ, "notDone")
				case *ast.CallExpr:
					// the standard-library spelling of the same thing
					if fn := pr.Callee(a0); fn != nil && fn.Pkg() != nil && fn.Pkg().Path() == "context" && fn.Name() == "WithoutCancel" {
						okCtx = true
					}
				}
			}
			c.Check(okCtx, "processResult:response-write-not-cancellable", pr, g.Node(wv), "the response is written under notDone{…}, never under the request's own (cancellable) context")
		}
		for _, wv := range wvs {
			c.Check(hasAtom(g.GuardsAt(wv), func(a Atom) bool {
				ce, ok := a.E.(*ast.CallExpr)
				return ok && a.Val && pr.IsCallTo(ce, isCall)
			}), "processResult:write-only-for-calls", pr, g.Node(wv), "notifications never receive a response (write is under req.IsCall())")
			delDom := false
			for _, s := range c.uifSites(pr) {
				for _, dc := range s.Lit.AllCalls(s.Lit.Body, false) {
					if s.Lit.BuiltinName(dc) == "delete" && s.Lit.IsField(dc.Args[0], byID) {
						if g.Dominates(g.VertexOf(s.Call), wv) {
							delDom = true
						}
					}
				}
			}
			c.Check(delDom, "processResult:unindex-before-write", pr, g.Node(wv), "delete(incomingByID, req.ID) dominates the write (the peer may reuse the id as soon as it sees the response)")
		}
		// and Connection.write really hands the message to the transport: the Writer.Write call is conditional only on the
		// shutting-down verdict being nil, its argument is the message, and its error is what write goes on with
		wf := c.Fn(pJ, "Connection", "write")
		wg := wf.Graph()
		wW := c.P.StdFunc(modPath+"/"+pJ, "Writer", "Write")
		c.Need(wW != nil, "jsonrpc2.Writer.Write")
		wcalls := wf.CallsIn(wf.Body, wW, false)
		okW := len(wcalls) == 1
		if okW {
			call := wcalls[0]
			wv := wg.VertexOf(call)
			var errV types.Object
			if as, ok := wf.ParentOf(call).(*ast.AssignStmt); ok && len(as.Lhs) == 1 {
				errV = wf.ObjOf(as.Lhs[0])
			}
			msgP := wf.NonRecvParams()[len(wf.NonRecvParams())-1]
			guards := wg.GuardsAt(wv)
			onlyNilErr := errV != nil
			for _, a := range guards {
				if !AtomSaysNil(a, true, func(e ast.Expr) bool { return wf.ObjOf(e) == errV }) {
					onlyNilErr = false
				}
			}
			okW = onlyNilErr && len(guards) >= 1 && len(call.Args) == 2 && wf.ObjOf(call.Args[1]) == types.Object(msgP)
			// the verdict variable is what the locked closure assigns from shuttingDown, and what write returns
			okRet := false
			for _, r := range wf.Returns() {
				if len(r.Results) == 1 && wf.ObjOf(r.Results[0]) == errV {
					okRet = true
				}
			}
			okW = okW && okRet
		}
		c.Check(okW, "write:hands-message-to-transport", wf, nil, "Connection.write calls writer.Write(ctx, msg) exactly when the shutting-down verdict is nil, and returns that call's error")
	})

	c.Rule("R-C02-3", "a request whose id is already in flight is refused without overwriting the original's index entry", func() {
		ar := c.Fn(pJ, "Connection", "acceptRequest")
		n := 0
		for _, s := range c.uifSites(ar) {
			l := s.Lit
			lg := l.Graph()
			for _, w := range Writes(l.Body, false) {
				m, k, ok := indexOf(w.LHS)
				if !ok || !l.IsField(m, byID) {
					continue
				}
				n++
				guards := lg.GuardsAt(lg.VertexOf(w.Stmt))
				okg := hasAtom(guards, func(a Atom) bool {
					return AtomSaysNil(a, true, func(e ast.Expr) bool {
						m2, k2, ok := indexOf(e)
						return ok && l.IsField(m2, byID) && sameExpr(k2, k)
					})
				})
				c.Check(okg, "acceptRequest:insert-only-if-absent", l, w.Stmt, "incomingByID[id] is stored only when no entry exists for that id (guards: %s)", atomsString(guards))
				isCall := c.FnObj(pJ, "Request", "IsCall")
				c.Check(hasAtom(guards, func(a Atom) bool { ce, ok := a.E.(*ast.CallExpr); return ok && a.Val && l.IsCallTo(ce, isCall) }),
					"acceptRequest:index-calls-only", l, w.Stmt, "only calls are indexed by id")
			}
		}
		c.Pin("incomingByID insertions", n, 1)
		// the refusal itself: on the branch where the id is already indexed, the closure leaves only after setting an error
		// that wraps ErrInvalidRequest and after clearing the request's id (so the error response is not attributed to,
		// and does not retire, the original request); outside the closure a non-nil error goes to processResult
		eIR := c.Obj(pJ, "ErrInvalidRequest")
		idF := c.Field(pJ, "Request", "ID")
		m := 0
		for _, s := range c.uifSites(ar) {
			l := s.Lit
			lg := l.Graph()
			for _, dup := range lg.edgesWhere(func(a Atom) bool {
				return AtomSaysNil(a, false, func(e ast.Expr) bool {
					mm, _, isIx := indexOf(e)
					return isIx && l.IsField(mm, byID)
				})
			}) {
				m++
				setsErr := func(v int) bool {
					for _, w := range Writes(lg.Node(v), false) {
						if w.RHS != nil && l.WrapsObj(w.RHS, eIR) {
							if o, ok := l.ObjOf(w.LHS).(*types.Var); ok && !o.IsField() {
								return true
							}
						}
					}
					return false
				}
				clearsID := func(v int) bool {
					for _, w := range Writes(lg.Node(v), false) {
						if l.IsField(w.LHS, idF) && w.RHS != nil {
							if cl, ok := ast.Unparen(w.RHS).(*ast.CompositeLit); ok && len(cl.Elts) == 0 {
								return true
							}
						}
					}
					return false
				}
				through := func(pred func(int) bool) bool { return lg.allPathsPass(dup, pred) }
				c.Check(through(setsErr), "acceptRequest:duplicate-is-refused", l, lg.Node(dup), "the already-in-use branch always sets an error wrapping ErrInvalidRequest before the closure returns (otherwise the duplicate is dispatched and never answered)")
				c.Check(through(clearsID), "acceptRequest:duplicate-loses-its-id", l, lg.Node(dup), "the already-in-use branch clears req.ID before the closure returns (otherwise the refusal is sent under, and retires, the original request's id)")
				// no insertion on that branch
				seen, _ := lg.reach([]int{dup}, nil, nil)
				seen[dup] = true
				ins := false
				for _, w := range Writes(l.Body, false) {
					if mi, _, ok := indexOf(w.LHS); ok && l.IsField(mi, byID) && seen[lg.VertexOf(w.Stmt)] {
						ins = true
					}
				}
				c.Check(!ins, "acceptRequest:duplicate-does-not-overwrite", l, lg.Node(dup), "no incomingByID store is reachable from the already-in-use branch")
			}
		}
		c.Pin("already-in-use tests in acceptRequest", m, 1)
	})

	c.Rule("R-C02-4", "every reject path carries the standard JSON-RPC code: not-handled → -32601 (errors.Is), undecodable params → -32602, structurally invalid → -32600", func() {
		pr := c.Fn(pJ, "Connection", "processResult")
		errIs := c.Std("errors", "", "Is")
		eNH := c.Obj(pJ, "ErrNotHandled")
		eMNF := c.Obj(pJ, "ErrMethodNotFound")
		eIP := c.Obj(pJ, "ErrInvalidParams")
		eIR := c.Obj(pJ, "ErrInvalidRequest")
		// (a) the not-found mapping
		mapped := 0
		g := pr.Graph()
		for _, w := range Writes(pr.Body, false) {
			if w.RHS == nil {
				continue
			}
			ce, ok := ast.Unparen(w.RHS).(*ast.CallExpr)
			if !ok || !pr.WrapsObj(ce, eMNF) {
				continue
			}
			mapped++
			seen := map[types.Object]bool{}
			for _, a := range g.GuardsAt(g.VertexOf(w.Stmt)) {
				// the disjunction itself is an atom; look for errors.Is calls inside it
				if !a.Val {
					continue
				}
				for _, ic := range pr.CallsIn(a.E, errIs, false) {
					if len(ic.Args) == 2 {
						seen[pr.ObjOf(ic.Args[1])] = true
					}
				}
			}
			c.Check(seen[eNH] && seen[eMNF], "processResult:not-found-mapping-uses-errors.Is", pr, w.Stmt,
				"wrapped ErrNotHandled/ErrMethodNotFound are recognised with errors.Is before the -32601 error is built (checkRequest and user handlers return them wrapped)")
		}
		c.Pin("method-not-found mapping", mapped, 1)
		for _, f := range c.funcsWithLits(pJ) {
			inspectNoLit(f.Body, func(n ast.Node) {
				if x, y, op, ok := binaryCmp(asExpr(n)); ok && (op == token.EQL || op == token.NEQ) {
					for _, e := range []ast.Expr{x, y} {
						if o := f.ObjOf(e); o == eNH || o == eMNF {
							c.Fail("sentinel-compared-with-==:"+f.Name(), f, n, "%s compared with %s instead of errors.Is: wrapped sentinels are missed and the response carries code 0", o.Name(), op)
						}
					}
				}
			})
		}
		// (b) every function stored in methodInfo.unmarshalParams
		ump := c.Field(pM, "methodInfo", "unmarshalParams")
		var impls []*Func
		for _, f := range c.funcsWithLits(pM) {
			for _, w := range Writes(f.Body, false) {
				if f.IsField(w.LHS, ump) && w.RHS != nil {
					if l, ok := ast.Unparen(w.RHS).(*ast.FuncLit); ok {
						impls = append(impls, f.Root().LitFor(l))
					} else {
						c.Undecided("unmarshalParams-impl:"+f.Name(), f, w.Stmt, "unmarshalParams assigned from a non-literal; cannot enumerate its error returns")
					}
				}
			}
			inspectNoLit(f.Body, func(n ast.Node) {
				cl, ok := n.(*ast.CompositeLit)
				if !ok || namedOf(f.TypeOf(cl)) != c.P.LookupType(pM, "methodInfo") {
					return
				}
				for _, el := range cl.Elts {
					if kv, ok := el.(*ast.KeyValueExpr); ok && f.ObjOf(kv.Key) == types.Object(ump) {
						if l, ok := ast.Unparen(kv.Value).(*ast.FuncLit); ok {
							impls = append(impls, f.Root().LitFor(l))
						} else {
							c.Undecided("unmarshalParams-impl:"+f.Name(), f, kv, "unmarshalParams initialised from a non-literal")
						}
					}
				}
			})
		}
		c.Pin("unmarshalParams implementations", len(impls), 2)
		for _, impl := range impls {
			c.touch(impl)
			ig := impl.Graph()
			for i, r := range impl.Returns() {
				if len(r.Results) != 2 || isNilIdent(r.Results[1]) {
					continue
				}
				// debug-flag branches are the documented legacy behaviour
				debug := hasAtom(ig.GuardsAt(ig.VertexOf(r)), func(a Atom) bool {
					x, y, op, ok := binaryCmp(a.E)
					if !ok || op != token.EQL || !a.Val {
						return false
					}
					_, isStr := impl.ConstString(y)
					v, _ := impl.ObjOf(x).(*types.Var)
					return isStr && v != nil && v.Parent() == v.Pkg().Scope()
				})
				if debug {
					c.Ok(impl.Name()+":return#"+itoa(i)+"(MCPGODEBUG)", impl, r, "legacy behaviour behind an MCPGODEBUG switch; not the default path")
					continue
				}
				ok := impl.WrapsObj(r.Results[1], eIP) || impl.WrapsObj(r.Results[1], eIR)
				c.Check(ok, impl.Name()+":return#"+itoa(i), impl, r, "error return wraps ErrInvalidParams or ErrInvalidRequest with %%w (toWireError keeps the code of a wrapped *WireError); otherwise the peer sees code 0")
			}
		}
		// (b') … and every implementation refuses JSON null / absent params: a return wrapping ErrInvalidRequest sits behind a
		// nil test of the decoded value, and the test is passed on the way to every successful return
		for _, impl := range impls {
			ig := impl.Graph()
			var decoded types.Object
			for _, call := range impl.AllCalls(impl.Body, false) {
				if fn := impl.Callee(call); fn != nil && fn.Name() == "Unmarshal" && len(call.Args) == 2 {
					if u, isU := ast.Unparen(call.Args[1]).(*ast.UnaryExpr); isU && u.Op == token.AND {
						decoded = impl.ObjOf(u.X)
					}
				}
			}
			if !c.Check(decoded != nil, impl.Name()+":decodes-into-a-local", impl, nil, "the params are decoded into a local the nil test can be about") {
				continue
			}
			var refusal []Atom
			for _, r := range impl.Returns() {
				if len(r.Results) != 2 || !impl.WrapsObj(r.Results[1], eIR) {
					continue
				}
				rv := ig.VertexOf(r)
				if gs := ig.GuardsAt(rv); hasAtom(gs, func(a Atom) bool {
					return AtomSaysNil(a, true, func(e ast.Expr) bool { return impl.ObjOf(e) == decoded })
				}) {
					refusal = gs
				}
			}
			if !c.Check(refusal != nil, impl.Name()+":null-params-refused", impl, nil, "nil params (absent or JSON null) are answered with ErrInvalidRequest (-32600) instead of reaching a handler that dereferences them") {
				continue
			}
			// under the very conditions that lead to the refusal no successful return is reachable (the test cannot be
			// bypassed); decided by evaluating the branch conditions, not by where the test is written
			reach := ig.ReachAssuming(refusal)
			for i, r := range impl.Returns() {
				if len(r.Results) == 2 && isNilIdent(r.Results[1]) {
					c.Check(!reach[ig.VertexOf(r)], impl.Name()+":null-test-before-success#"+itoa(i), impl, r, "the nil test is evaluated on every path to this successful return")
				}
			}
		}
		// (b'') completion/complete: its two required members are tested by the server itself (the params type cannot
		// express "required"), each with an invalid-params reply
		cp := c.Fn(pM, "Server", "complete")
		cpg := cp.Graph()
		refF, nameF := c.Field(pM, "CompleteParams", "Ref"), c.Field(pM, "CompleteParamsArgument", "Name")
		seenRef, seenName := false, false
		for _, r := range cp.Returns() {
			if len(r.Results) != 2 || !cp.WrapsObj(r.Results[1], eIP) {
				continue
			}
			gs := cpg.GuardsAt(cpg.VertexOf(r))
			if hasAtom(gs, func(a Atom) bool { return AtomSaysNil(a, true, func(e ast.Expr) bool { return cp.IsField(e, refF) }) }) {
				seenRef = true
			}
			if hasAtom(gs, func(a Atom) bool {
				x, y, op, ok := cmpOn(a.E, func(e ast.Expr) bool { return cp.IsField(e, nameF) })
				sv, isS := cp.ConstString(y)
				return ok && x != nil && op == token.EQL && a.Val && isS && sv == ""
			}) {
				seenName = true
			}
		}
		c.Check(seenRef, "complete:missing-ref-is-invalid-params", cp, nil, "a completion request without ref is answered -32602 (the handler would dereference it)")
		c.Check(seenName, "complete:missing-argument-name-is-invalid-params", cp, nil, "a completion request without argument.name is answered -32602")
		// (c) checkRequest
		cr := c.Fn(pM, "", "checkRequest")
		nerr := 0
		for i, r := range cr.Returns() {
			if len(r.Results) != 2 || isNilIdent(r.Results[1]) {
				continue
			}
			nerr++
			ok := cr.WrapsObj(r.Results[1], eNH) || cr.WrapsObj(r.Results[1], eIR)
			c.Check(ok, "checkRequest:return#"+itoa(i), cr, r, "reject return wraps ErrNotHandled (→ -32601) or ErrInvalidRequest (→ -32600)")
		}
		c.Pin("checkRequest reject returns", nerr, 4)
		// (d) handleReceive keeps the wrapped code
		hr := c.Fn(pM, "", "handleReceive")
		for i, r := range hr.Returns() {
			if len(r.Results) != 2 || isNilIdent(r.Results[1]) {
				continue
			}
			e := ast.Unparen(r.Results[1])
			if ce, ok := e.(*ast.CallExpr); ok {
				c.Check(len(hr.ErrorfWraps(ce)) > 0, "handleReceive:return#"+itoa(i), hr, r, "an error is re-wrapped with %%w so that its code survives")
			} else {
				c.Ok("handleReceive:return#"+itoa(i), hr, r, "error returned unchanged")
			}
		}
	})

	c.Rule("R-C02-15", "the batch bookkeeping forgets what it says it forgets: no loop in the code behind ioConn.Read/Write ranges over a collection that the guards in front of it say is empty (a `for id := range batch.unresolved { delete(index, id) }` placed behind `len(batch.unresolved) == 0` never runs: the ids of an answered batch stay in the index, a later call re-using one is never answered and a later batch re-using one tears the session down)", func() {
		n := 0
		seen := map[*Func]bool{}
		for _, rootName := range []string{"Read", "Write"} {
			for _, f0 := range c.pkgClosure(c.Fn(pM, "ioConn", rootName)) {
				for _, f := range append([]*Func{f0}, f0.AllLits()...) {
					if seen[f] {
						continue
					}
					seen[f] = true
					g := f.Graph()
					inspectNoLit(f.Body, func(x ast.Node) {
						rs, ok := x.(*ast.RangeStmt)
						if !ok {
							return
						}
						if _, isSel := ast.Unparen(rs.X).(*ast.SelectorExpr); !isSel {
							if _, isID := ast.Unparen(rs.X).(*ast.Ident); !isID {
								return
							}
						}
						n++
						target := exprStr(rs.X)
						empty := hasAtom(g.GuardsAt(g.VertexOf(rs.X)), func(a Atom) bool {
							y, zc, op, ok := binaryCmp(a.E)
							if !ok {
								return false
							}
							ce, isC := ast.Unparen(y).(*ast.CallExpr)
							z, isZ := f.ConstInt(zc)
							if !isC || !isZ || f.BuiltinName(ce) != "len" || len(ce.Args) != 1 || exprStr(ce.Args[0]) != target {
								return false
							}
							switch {
							case op == token.EQL && z == 0:
								return a.Val
							case op == token.NEQ && z == 0, op == token.GTR && z == 0, op == token.GEQ && z == 1:
								return !a.Val
							case op == token.LEQ && z == 0, op == token.LSS && z == 1:
								return a.Val
							}
							return false
						})
						// something may have been put into it since the test
						if empty {
							if sel, isSel := ast.Unparen(rs.X).(*ast.SelectorExpr); isSel {
								if fld, isF := f.ObjOf(sel.Sel).(*types.Var); isF && fld.IsField() {
									rv := g.VertexOf(rs.X)
									for _, w := range f.FieldWrites(f.Body, fld, false) {
										if ce, isC := w.(*ast.ExprStmt); isC {
											if call, isCall := ce.X.(*ast.CallExpr); isCall && (f.BuiltinName(call) == "delete" || f.BuiltinName(call) == "clear") {
												continue
											}
										}
										if call, isCall := w.(*ast.CallExpr); isCall && (f.BuiltinName(call) == "delete" || f.BuiltinName(call) == "clear") {
											continue
										}
										if wv := g.VertexOf(w); g.ReachableFrom(wv)[rv] {
											empty = false
										}
									}
								}
							}
						}
						c.Check(!empty, "batch-bookkeeping:no-loop-over-a-collection-known-empty:"+f.Name()+":"+target, f, rs, "the loop over %s is not behind a test that says %s is empty (guards: %s)", target, target, atomsString(g.GuardsAt(g.VertexOf(rs.X))))
					})
				}
			}
		}
		c.Pin("range loops over variables/fields behind ioConn.Read/Write", n, 1)
	})

	c.Rule("R-C02-5", "batch bookkeeping tracks calls only (notifications are never answered), and a batch reply is flushed exactly when its last call is answered", func() {
		isCall := c.FnObj(pJ, "Request", "IsCall")
		isValid := c.FnObj(pJ, "ID", "IsValid")
		callGuard := func(f *Func, atoms []Atom) bool {
			return hasAtom(atoms, func(a Atom) bool {
				ce, ok := a.E.(*ast.CallExpr)
				return ok && a.Val && (f.IsCallTo(ce, isCall) || f.IsCallTo(ce, isValid))
			})
		}
		rd := c.Fn(pM, "ioConn", "Read")
		unres := c.Field(pM, "msgBatch", "unresolved")
		g := rd.Graph()
		n := 0
		for _, w := range Writes(rd.Body, false) {
			if m, _, ok := indexOf(w.LHS); ok && rd.IsField(m, unres) {
				n++
				guards := g.GuardsAt(g.VertexOf(w.Stmt))
				c.Check(callGuard(rd, guards), "ioConn.Read:track-calls-only", rd, w.Stmt,
					"insertion into msgBatch.unresolved is guarded by IsCall (guards: %s); a tracked notification is never resolved, so the batch reply is withheld forever, and two notifications collide on the zero id", atomsString(guards))
			}
		}
		c.Pin("ioConn.Read tracker insertions", n, 1)
		sp := c.Fn(pM, "streamableServerConn", "servePOST")
		sg := sp.Graph()
		// the per-POST set of calls: the map handed to newStream
		var callsVar types.Object
		for _, call := range sp.CallsIn(sp.Body, c.FnObj(pM, "streamableServerConn", "newStream"), false) {
			callsVar = sp.ObjOf(call.Args[1])
		}
		c.Need(callsVar != nil, "servePOST: the set of calls passed to newStream")
		n = 0
		for _, w := range Writes(sp.Body, false) {
			m, _, ok := indexOf(w.LHS)
			if !ok {
				continue
			}
			if o, _ := sp.ObjOf(m).(*types.Var); o != nil && !o.IsField() && o == callsVar {
				n++
				c.Check(callGuard(sp, sg.GuardsAt(sg.VertexOf(w.Stmt))), "servePOST:track-calls-only", sp, w.Stmt, "the per-POST call set is filled only under IsCall")
			}
		}
		c.Pin("servePOST tracker insertions", n, 1)
		ub := c.Fn(pM, "ioConn", "updateBatch")
		ug := ub.Graph()
		batches := c.Field(pM, "ioConn", "batches")
		respF := c.Field(pM, "msgBatch", "responses")
		flush := 0
		for _, r := range ub.Returns() {
			if len(r.Results) == 2 && ub.IsField(r.Results[0], respF) {
				flush++
				guards := ug.GuardsAt(ug.VertexOf(r))
				ok := hasAtom(guards, func(a Atom) bool {
					return atomSaysEmpty(ub, a, func(e ast.Expr) bool { return ub.IsField(e, unres) })
				})
				c.Check(ok, "updateBatch:flush-when-empty", ub, r, "the batch reply is released only when no call is unresolved (guards: %s)", atomsString(guards))
				dels := map[string]bool{}
				for _, dc := range ub.AllCalls(ub.Body, false) {
					if ub.BuiltinName(dc) == "delete" && ug.Dominates(ug.VertexOf(dc), ug.VertexOf(r)) {
						if ub.IsField(dc.Args[0], unres) {
							dels["unresolved"] = true
						}
						if ub.IsField(dc.Args[0], batches) {
							dels["batches"] = true
						}
					}
				}
				c.Check(dels["unresolved"] && dels["batches"], "updateBatch:resolve-both-indexes", ub, r, "the answered id is deleted from the batch and from the connection index before the flush decision")
			}
		}
		c.Pin("updateBatch flush return", flush, 1)
		// ... and every answer releases its id in the connection's index, not only the last one of its batch: where the
		// id is struck off the batch's own list, it is struck off ioConn.batches on the same path (an id that stays
		// there belongs to a batch that has been answered and dropped; a later call reusing the id is matched with it)
		var dbs []int
		for _, dc := range ub.AllCalls(ub.Body, false) {
			if ub.BuiltinName(dc) == "delete" && len(dc.Args) == 2 && ub.IsField(dc.Args[0], batches) {
				dbs = append(dbs, ug.VertexOf(dc))
			}
		}
		for _, dc := range ub.AllCalls(ub.Body, false) {
			if ub.BuiltinName(dc) != "delete" || len(dc.Args) != 2 || !ub.IsField(dc.Args[0], unres) {
				continue
			}
			du := ug.VertexOf(dc)
			ok := false
			for _, db := range dbs {
				if ug.Dominates(db, du) {
					ok = true
				}
			}
			if !ok {
				ok, _ = ug.MustPass(du, ug.Exits, func(v int) bool { return slices.Contains(dbs, v) })
			}
			c.Check(ok, "updateBatch:connection-index-released-with-every-answer", ub, dc, "on every path on which an answered id is deleted from the batch's unresolved list it is deleted from ioConn.batches too")
		}
		// the slot a call's response goes into exists: Read records len(responses) as the call's index and then grows
		// responses by one before the next call is looked at; updateBatch stores the response at that index
		slots := 0
		for _, w := range Writes(rd.Body, false) {
			m, _, ok := indexOf(w.LHS)
			if !ok || !rd.IsField(m, unres) {
				continue
			}
			slots++
			var ce *ast.CallExpr
			if w.RHS != nil {
				ce, _ = ast.Unparen(w.RHS).(*ast.CallExpr)
			}
			c.Check(ce != nil && rd.BuiltinName(ce) == "len" && rd.IsField(ce.Args[0], respF), "ioConn.Read:index-is-next-slot", rd, w.Stmt, "the index recorded for the call is len(responses)")
			v := g.VertexOf(w.Stmt)
			grows := func(u int) bool {
				as, isAs := g.Node(u).(*ast.AssignStmt)
				if !isAs || len(as.Lhs) != 1 || len(as.Rhs) != 1 || !rd.IsField(as.Lhs[0], respF) {
					return false
				}
				ac, isAc := ast.Unparen(as.Rhs[0]).(*ast.CallExpr)
				return isAc && rd.BuiltinName(ac) == "append" && len(ac.Args) == 2 && rd.IsField(ac.Args[0], respF)
			}
			okp, path := g.MustPass(v, append(append([]int{}, g.Exits...), v), grows)
			c.Check(okp, "ioConn.Read:slot-reserved", rd, w.Stmt, "responses grows by one slot before the next call of the batch is indexed (otherwise updateBatch stores out of range) %s", g.PathString(path))
		}
		c.Pin("ioConn.Read slot reservations", slots, 1)
		stores := 0
		for _, w := range Writes(ub.Body, false) {
			m, k, ok := indexOf(w.LHS)
			if !ok || !ub.IsField(m, respF) {
				continue
			}
			stores++
			idx := ub.ObjOf(k)
			fromUnres := false
			if idx != nil {
				ast.Inspect(ub.Body, func(n ast.Node) bool {
					if as, isAs := n.(*ast.AssignStmt); isAs && len(as.Rhs) == 1 && len(as.Lhs) >= 1 {
						if m2, _, ok2 := indexOf(as.Rhs[0]); ok2 && ub.IsField(m2, unres) && ub.ObjOf(as.Lhs[0]) == idx {
							fromUnres = true
						}
					}
					return true
				})
			}
			c.Check(fromUnres, "updateBatch:slot-from-index", ub, w.Stmt, "the response is stored at the index recorded in unresolved for its id")
			for _, r := range ub.Returns() {
				if len(r.Results) == 2 && ub.IsField(r.Results[0], respF) {
					c.Check(ug.Dominates(ug.VertexOf(w.Stmt), ug.VertexOf(r)), "updateBatch:stored-before-flush", ub, r, "the response is stored in the batch before the flush decision")
				}
			}
		}
		c.Pin("updateBatch slot stores", stores, 1)
		// malformed input ends in an error, not in an index panic: Read stops on readBatch's error before touching msgs,
		// and readBatch never reports success with no message
		rb := c.Fn(pM, "", "readBatch")
		rbCalls := rd.CallsIn(rd.Body, rb.Obj, false)
		c.Pin("ioConn.Read readBatch calls", len(rbCalls), 1)
		for _, call := range rbCalls {
			c.Check(rd.failureReturnsError(call), "ioConn.Read:readBatch-failure-returns", rd, call, "a failure of readBatch returns the error before msgs[0] / msgs[1:] are evaluated")
		}
		rbg := rb.Graph()
		okRets := 0
		for _, r := range rb.Returns() {
			if len(r.Results) != 3 || !isNilIdent(r.Results[2]) {
				continue
			}
			okRets++
			guards := rbg.GuardsAt(rbg.VertexOf(r))
			c.Check(hasAtom(guards, func(a Atom) bool {
				x, y, op, isCmp := binaryCmp(a.E)
				if !isCmp {
					return false
				}
				ce, isCe := ast.Unparen(x).(*ast.CallExpr)
				z, isZ := rb.ConstInt(y)
				if !isCe || rb.BuiltinName(ce) != "len" || !isZ || z != 0 {
					return false
				}
				return (op == token.EQL && !a.Val) || ((op == token.GTR || op == token.NEQ) && a.Val)
			}), "readBatch:empty-batch-refused", rb, r, "a batch is reported decoded only behind len(rawBatch) != 0 (guards: %s): Read indexes msgs[0]", atomsString(guards))
		}
		c.Pin("readBatch success returns", okRets, 1)
		dm := c.FnObj(pJ, "", "DecodeMessage")
		for _, call := range rb.CallsIn(rb.Body, dm, false) {
			if _, inLoop := rb.Enclosing(call, func(n ast.Node) bool { _, ok := n.(*ast.RangeStmt); return ok }).(*ast.RangeStmt); inLoop {
				c.Check(rb.failureReturnsError(call), "readBatch:element-failure-returns", rb, call, "an undecodable batch element fails the whole batch (a nil message is never queued)")
			}
		}
	})

	c.Rule("R-C02-16", "the reply of a batch has one slot per call and none for anything else: wherever msgBatch.responses gets its length (grown by append, or allocated with make) the number of slots is a number of calls — an append under IsCall, or the length of a collection / a counter that is fed under IsCall only. The slice goes out as it is once it is full, so a slot for a notification or a response is a slot nobody fills: the reply is withheld for ever (or carries a null)", func() { c02ReplySlotsRule(c) })

	c.Rule("R-C02-13", "errors.Is is asked the right way round: the sentinel (a package-level error value) is the target, the error in hand is the chain that is searched — errors.Is(sentinel, err) is true only for the bare sentinel and misses every wrapped one (the reject codes, ErrRejected, ErrNotHandled, ErrSessionMissing all travel wrapped)", func() {
		errIs := c.Std("errors", "", "Is")
		n := 0
		for _, rel := range []string{pJ, pM, pA, pO} {
			for _, f := range c.funcsWithLits(rel) {
				if f.Body == nil {
					continue
				}
				for _, call := range f.CallsIn(f.Body, errIs, false) {
					if len(call.Args) != 2 {
						continue
					}
					pkgLevel := func(e ast.Expr) bool {
						v, ok := f.ObjOf(e).(*types.Var)
						return ok && v.Pkg() != nil && v.Parent() == v.Pkg().Scope()
					}
					if !pkgLevel(call.Args[0]) && !pkgLevel(call.Args[1]) {
						continue // neither is a sentinel: nothing to say
					}
					n++
					c.touch(f)
					c.Check(pkgLevel(call.Args[1]) && !pkgLevel(call.Args[0]), "errors.Is-target-is-the-sentinel:"+f.Name()+"#"+itoa(n), f, call, "errors.Is(%s, %s): the second argument is the sentinel", exprStr(call.Args[0]), exprStr(call.Args[1]))
				}
			}
		}
		c.Pin("errors.Is calls against a sentinel", n, 18)
	})

	c.Rule("R-C02-12", "a transport's Write treats the context it is given as ended only through ctx.Err() / ctx.Done(): the response of a cancelled call is written under notDone{req.ctx}, which hides the cancellation from Err and Done but not from context.Cause (it reads a Value) — a Write that asks Cause refuses the response and the connection is declared broken", func() {
		n := 0
		for _, f := range c.funcsWithLits(pM) {
			root := f.Root()
			if root.Obj == nil || root.Obj.Name() != "Write" || root.Recv() == nil || f.Body == nil {
				continue
			}
			ctxP := root.CtxParam()
			if ctxP == nil {
				continue
			}
			n++
			c.touch(f)
			for _, call := range f.AllCalls(f.Body, false) {
				fn := f.Callee(call)
				if fn == nil || fn.Pkg() == nil || fn.Pkg().Path() != "context" || fn.Name() != "Cause" {
					continue
				}
				c.Check(len(call.Args) == 1 && f.ObjOf(call.Args[0]) != types.Object(ctxP), "Write-asks-Cause:"+f.Name(), f, call, "context.Cause is not applied to the context handed to Write")
			}
		}
		c.Pin("transport Write methods with a context", n, 5)
	})

	c.Rule("R-C02-11", "a peer that has not negotiated a version yet is not cut off for batching: on the newline-delimited transports the version that gates batches starts as 2025-03-26 (an empty version is replaced by that constant before it is normalised), so a pre-initialize batch is read and answered instead of ending the session", func() {
		su := c.Fn(pM, "ioConn", "sessionUpdated")
		g := su.Graph()
		nv := c.FnObj(pM, "", "negotiatedVersion")
		old := c.Obj(pM, "protocolVersion20250326")
		calls := su.CallsIn(su.Body, nv, false)
		c.Need(len(calls) == 1, "ioConn.sessionUpdated: negotiatedVersion call")
		verV := su.ObjOf(calls[0].Args[0])
		c.Need(verV != nil, "ioConn.sessionUpdated: version variable")
		ok := false
		for _, t := range g.edgesWhere(func(a Atom) bool {
			x, y, op, isCmp := binaryCmp(a.E)
			s, isS := su.ConstString(y)
			return isCmp && op == token.EQL && a.Val && su.ObjOf(x) == verV && isS && s == ""
		}) {
			if g.allPathsPass(t, func(v int) bool {
				for _, w := range Writes(g.Node(v), false) {
					if su.ObjOf(w.LHS) == verV && w.RHS != nil && su.ObjOf(w.RHS) == old {
						return true
					}
				}
				return false
			}) && g.ReachableFrom(t)[g.VertexOf(calls[0])] {
				ok = true
			}
		}
		c.Check(ok, "ioConn.sessionUpdated:empty-version-is-2025-03-26", su, calls[0], "before negotiatedVersion is applied, an empty version is replaced by protocolVersion20250326 on every path (negotiatedVersion(\"\") would yield the latest legacy version, under which ioConn.Read refuses batches)")
		// the gate compares with the version this function stored
		pvF := c.Field(pM, "ioConn", "protocolVersion")
		okStore := false
		for _, w := range su.FieldWrites(su.Body, pvF, false) {
			var resV types.Object
			if ras, isAs := su.ParentOf(calls[0]).(*ast.AssignStmt); isAs && len(ras.Lhs) == 1 {
				resV = su.ObjOf(ras.Lhs[0])
			}
			if as, isAs := w.(*ast.AssignStmt); isAs && len(as.Rhs) == 1 && resV != nil && su.ObjOf(as.Rhs[0]) == resV && su.heldLocal(w)["ioConn.sessionMu"] && g.ReachableFrom(g.VertexOf(calls[0]))[g.VertexOf(w)] {
				okStore = true
			}
		}
		c.Check(okStore, "ioConn.sessionUpdated:stores-normalised-version", su, nil, "the normalised version is stored in ioConn.protocolVersion under sessionMu (the field ioConn.Read compares with 2025-06-18)")
		// the gate itself: a batch is refused exactly from 2025-06-18 on (the property's "pre-2025-06-18"), on the
		// newline-delimited transports and on the streamable server alike
		gateC := c.Obj(pM, "protocolVersion20250618")
		rbF := c.FnObj(pM, "", "readBatch")
		for _, site := range []struct{ recv, fn string }{{"ioConn", "Read"}, {"streamableServerConn", "servePOST"}} {
			f := c.Fn(pM, site.recv, site.fn)
			fg := f.Graph()
			batchV := f.VarFromCall(rbF, 1)
			if !c.Check(batchV != nil, site.fn+":batch-flag", f, nil, "the is-a-batch flag returned by readBatch is bound") {
				continue
			}
			nGate := 0
			for _, ev := range fg.condVertices() {
				cond := fg.node[ev-1].(ast.Expr)
				var atoms []Atom
				splitAtoms(cond, true, &atoms)
				if !hasAtom(atoms, func(a Atom) bool { return a.Val && f.ObjOf(a.E) == batchV }) {
					continue
				}
				for _, a := range atoms {
					x, y, op, ok := binaryCmp(a.E)
					if !ok || x == nil {
						continue
					}
					if cst, isC := f.ObjOf(y).(*types.Const); isC && strings.HasPrefix(cst.Name(), "protocolVersion") {
						nGate++
						c.Check(types.Object(cst) == gateC && op == token.GEQ && a.Val, site.fn+":batch-refused-from-2025-06-18", f, fg.Node(ev-1), "batches are refused under `version >= protocolVersion20250618` (got %s)", exprStr(a.E))
					}
				}
			}
			c.Pin(site.fn+" batch version gates", nGate, 1)
		}
	})

	c.Import("R-C02-9", "a streamable session is not closed by its idle timer while a POST is being served: the response of a slow call still has a connection to be written to", "C11", "R-C11-4", func(k string) bool {
		return strings.HasPrefix(k, "startPOST") || strings.HasPrefix(k, "endPOST") || strings.HasPrefix(k, "idle-timer")
	})

	c.Import("R-C02-14", "a refused POST leaves nothing behind: the ids of a batch are registered only after all of them were found free (a half-registered batch makes later, legitimate calls with those ids unanswerable)", "C10", "R-C10-3", func(k string) bool {
		return strings.HasPrefix(k, "servePOST:no-partial") || strings.HasPrefix(k, "servePOST:duplicate") || strings.HasPrefix(k, "servePOST:dup-scan")
	})
	c.Import("R-C02-10", "malformed per-request metadata is answered with an error, not with a crash of the handler goroutine: a null _meta entry does not count as present", "C06", "R-C06-2", func(k string) bool { return strings.HasPrefix(k, "decodeMetaValue") })

	c.Rule("R-C02-8", "on the streamable server a logical stream outlives every call of its POST: each response of a batch still finds its stream (shared with R-C08-6)", func() { streamBookkeepingRule(c) })

	c.Rule("R-C02-6", "ids are echoed exactly: integer ids never pass through float64 on the decode path (shared with R-C19-1)", func() { idExactnessRule(c) })

	c.Rule("R-C02-7", "the HTTP transports pre-validate every decoded request (checkRequest → 4xx) before handing it to the session", func() {
		cr := c.FnObj(pM, "", "checkRequest")
		// streamable
		sp := c.Fn(pM, "streamableServerConn", "servePOST")
		sg := sp.Graph()
		inF := c.Field(pM, "streamableServerConn", "incoming")
		sends := sendsOn(sp, inF)
		c.Pin("servePOST sends on incoming", len(sends), 2)
		cvs := sg.callVertices(cr)
		c.Need(len(cvs) == 1, "servePOST: one checkRequest call")
		cv := cvs[0]
		// the loop that validates ranges over the same slice variable the send loops range over
		vr, _ := sp.Enclosing(sg.Node(cv), func(n ast.Node) bool { _, ok := n.(*ast.RangeStmt); return ok }).(*ast.RangeStmt)
		c.Need(vr != nil, "servePOST: validation loop")
		for i, s := range sends {
			sr, _ := sp.Enclosing(s, func(n ast.Node) bool { _, ok := n.(*ast.RangeStmt); return ok }).(*ast.RangeStmt)
			ok := sr != nil && sp.ObjOf(sr.X) != nil && sp.ObjOf(sr.X) == sp.ObjOf(vr.X) &&
				sg.Dominates(sg.VertexOf(vr.X), sg.VertexOf(s)) && !sg.ReachableFrom(sg.VertexOf(s))[cv]
			c.Check(ok, "servePOST:send#"+itoa(i)+"-after-validation-loop", sp, s, "messages are published only after the loop that validated every element of the same slice has completed")
			// the sent value is the loop element
			c.Check(sr != nil && sp.ObjOf(s.Value) != nil && sp.ObjOf(s.Value) == sp.ObjOf(sr.Value), "servePOST:send#"+itoa(i)+"-sends-validated-element", sp, s, "the value sent is the element of the validated slice")
		}
		c.checkRejectBranch(sp, cv, "servePOST")
		// the validation is applied to every *Request element: checkRequest's argument is the type-asserted loop element
		// SSE
		sh := c.Fn(pM, "SSEServerTransport", "ServeHTTP")
		hg := sh.Graph()
		inS := c.Field(pM, "SSEServerTransport", "incoming")
		ssends := sendsOn(sh, inS)
		c.Pin("SSE ServeHTTP sends on incoming", len(ssends), 1)
		scv := hg.callVertices(cr)
		c.Need(len(scv) == 1, "SSE ServeHTTP: one checkRequest call")
		for i, s := range ssends {
			// every path on which the message is a *Request passes through checkRequest
			var okTarget = -1
			for _, cvx := range hg.condVertices() {
				cond := hg.Node(cvx - 1).(ast.Expr)
				if id, ok := ast.Unparen(cond).(*ast.Ident); ok && sh.ObjOf(id) == typeAssertOKVar(sh, pJ, "Request") {
					okTarget, _ = hg.BranchTargets(cvx - 1)
				}
			}
			c.Must(okTarget >= 0, "sse.ServeHTTP:send#"+itoa(i)+"-validated", sh, s, "a decoded request reaches the session only through checkRequest: the validated *Request branch in front of this hand-off is gone")
			okp, p := hg.MustPassIncl(okTarget, []int{hg.VertexOf(s)}, func(v int) bool { return v == scv[0] })
			c.Check(okp || okTarget == scv[0], "sse.ServeHTTP:send#"+itoa(i)+"-validated", sh, s, "a decoded request reaches the session only through checkRequest %s", hg.PathString(p))
		}
		c.checkRejectBranch(sh, scv[0], "sse.ServeHTTP")
	})
}

// checkRejectBranch: the error result of the checkRequest call at vertex cv is tested, and on the
// error branch every path writes an HTTP error (http.Error / writeJSONRPCError) and returns.
func (c *Ctx) checkRejectBranch(f *Func, cv int, label string) {
	g := f.Graph()
	httpErr := c.Std("net/http", "", "Error")
	wj := c.FnObj(pM, "", "writeJSONRPCError")
	var errVar types.Object
	for _, w := range Writes(g.Node(cv), false) {
		if id, ok := w.LHS.(*ast.Ident); ok && id.Name != "_" {
			errVar = f.ObjOf(id)
		}
	}
	c.Need(errVar != nil, label+": checkRequest error variable")
	found := false
	for _, cvx := range g.condVertices() {
		cond := g.Node(cvx - 1).(ast.Expr)
		x, twn, ok := NilTest(cond)
		if !ok || f.ObjOf(x) != errVar {
			continue
		}
		found = true
		t, fl := g.BranchTargets(cvx - 1)
		tgt := t
		if twn {
			tgt = fl
		}
		// no send reachable, every path to exit writes an error
		reach, _ := g.reach([]int{tgt}, nil, nil)
		sendReach := false
		for v := 0; v < g.N; v++ {
			if reach[v] && g.Node(v) != nil {
				if _, ok := g.Node(v).(*ast.SendStmt); ok {
					sendReach = true
				}
			}
		}
		isW := func(v int) bool {
			n := g.Node(v)
			return n != nil && (f.ContainsCall(n, httpErr) || f.ContainsCall(n, wj))
		}
		okw, p := g.MustPassIncl(tgt, g.Exits, isW)
		c.Check(!sendReach && (okw || isW(tgt)), label+":reject-branch-answers-4xx-and-returns", f, cond, "on a checkRequest error every path writes an HTTP error and returns without publishing the message %s", g.PathString(p))
	}
	c.Check(found, label+":checkRequest-error-tested", f, g.Node(cv), "the checkRequest error is tested")
}

// sendsOn lists send statements in f (own body) whose channel is field fld.
func sendsOn(f *Func, fld *types.Var) []*ast.SendStmt {
	var out []*ast.SendStmt
	inspectNoLit(f.Body, func(n ast.Node) {
		if s, ok := n.(*ast.SendStmt); ok && f.IsField(s.Chan, fld) {
			out = append(out, s)
		}
	})
	return out
}

func asExpr(n ast.Node) ast.Expr {
	if e, ok := n.(ast.Expr); ok {
		return e
	}
	return nil
}

func deepC02(c *Ctx) {
	c.Rule("R-C02-2t", "whole program (VTA): processResult and NewResponse have no caller outside internal/jsonrpc2", func() {
		for _, name := range [][2]string{{"Connection", "processResult"}, {"", "NewResponse"}} {
			obj := c.FnObj(pJ, name[0], name[1])
			for _, cl := range c.P.CallersOf(obj) {
				c.Check(cl.PkgPath == modPath+"/"+pJ, "vta-caller:"+name[1]+":"+cl.Name, nil, nil, "caller %s (%s)", cl.Name, cl.Pos)
			}
		}
	})
}

// typeAssertOKVar returns the comma-ok variable of `x, ok := v.(*rel.name)` in f's own body.
func typeAssertOKVar(f *Func, rel, name string) types.Object {
	var out types.Object
	inspectNoLit(f.Body, func(n ast.Node) {
		as, ok := n.(*ast.AssignStmt)
		if !ok || len(as.Lhs) != 2 || len(as.Rhs) != 1 {
			return
		}
		if ta, ok := ast.Unparen(as.Rhs[0]).(*ast.TypeAssertExpr); ok && ta.Type != nil && isNamedType(f.TypeOf(ta.Type), modPath+"/"+rel, name) {
			out = f.ObjOf(as.Lhs[1])
		}
	})
	return out
}

// c02ReplySlotsRule (R-C02-16): see the rule text. Roles only: the field msgBatch.responses, (*Request).IsCall, the code
// behind ioConn.Read (where batches are recorded) and behind ioConn.Write (where the reply is released).
func c02ReplySlotsRule(c *Ctx) {
	respF := c.Field(pM, "msgBatch", "responses")
	isCall := c.FnObj(pJ, "Request", "IsCall")
	rd := c.Fn(pM, "ioConn", "Read")
	wr := c.Fn(pM, "ioConn", "Write")
	callGuard := func(f *Func, n ast.Node) bool {
		g := f.Graph()
		v := g.VertexOf(n)
		if v < 0 {
			return false
		}
		return hasAtom(g.GuardsAt(v), func(a Atom) bool { return atomSaysIsCall(f, a, isCall, true) })
	}
	// the slice is released as it stands: some function behind Write returns the field itself
	releasedRaw := false
	for _, f0 := range c.pkgClosure(wr) {
		for _, f := range append([]*Func{f0}, f0.AllLits()...) {
			for _, r := range f.Returns() {
				for _, res := range r.Results {
					if f.IsField(res, respF) {
						releasedRaw = true
					}
				}
			}
		}
	}
	var fns []*Func
	seen := map[*Func]bool{}
	for _, f0 := range c.pkgClosure(rd) {
		for _, f := range append([]*Func{f0}, f0.AllLits()...) {
			if !seen[f] {
				seen[f] = true
				fns = append(fns, f)
			}
		}
	}
	// every write of a local, with the function in whose body it stands
	type c02w struct {
		f *Func
		w Write
	}
	writesOf := func(f *Func, obj types.Object) []c02w {
		var out []c02w
		root := f.Root()
		for _, x := range append([]*Func{root}, root.AllLits()...) {
			for _, w := range Writes(x.Body, false) {
				if id, ok := ast.Unparen(w.LHS).(*ast.Ident); ok && x.ObjOf(id) == obj {
					out = append(out, c02w{x, w})
				}
			}
		}
		return out
	}
	isParam := func(f *Func, obj types.Object) bool {
		for x := f; x != nil; x = x.Parent {
			for _, p := range x.Params() {
				if types.Object(p) == obj {
					return true
				}
			}
		}
		return false
	}
	// callsOnly: a local collection that starts empty and grows by append under IsCall only
	callsOnly := func(f *Func, obj types.Object) bool {
		if obj == nil || isParam(f, obj) || f.Root().addressTaken(obj) {
			return false
		}
		grown := 0
		for _, cw := range writesOf(f, obj) {
			r := cw.w.RHS
			if r == nil {
				if _, isVS := cw.w.Stmt.(*ast.ValueSpec); isVS {
					continue
				}
				return false
			}
			if empty, _ := cw.f.emptySlice(r); empty {
				continue
			}
			ce, ok := ast.Unparen(r).(*ast.CallExpr)
			if ok && cw.f.BuiltinName(ce) == "append" && len(ce.Args) >= 1 && cw.f.ObjOf(ce.Args[0]) == obj && !ce.Ellipsis.IsValid() && callGuard(cw.f, cw.w.Stmt) {
				grown++
				continue
			}
			return false
		}
		return grown > 0
	}
	// countsCalls: a local integer that starts at zero and is stepped under IsCall only
	countsCalls := func(f *Func, obj types.Object) bool {
		if obj == nil || isParam(f, obj) || f.Root().addressTaken(obj) {
			return false
		}
		stepped := 0
		for _, cw := range writesOf(f, obj) {
			if _, isInc := cw.w.Stmt.(*ast.IncDecStmt); isInc && cw.w.Tok == token.INC && callGuard(cw.f, cw.w.Stmt) {
				stepped++
				continue
			}
			if cw.w.RHS == nil {
				if _, isVS := cw.w.Stmt.(*ast.ValueSpec); isVS {
					continue
				}
				return false
			}
			if z, isZ := cw.f.ConstInt(cw.w.RHS); isZ && z == 0 {
				continue
			}
			return false
		}
		return stepped > 0
	}
	holdsAnyMessage := func(f *Func, e ast.Expr) bool {
		t := f.TypeOf(e)
		if t == nil {
			return false
		}
		var el types.Type
		switch u := t.Underlying().(type) {
		case *types.Slice:
			el = u.Elem()
		case *types.Array:
			el = u.Elem()
		case *types.Map:
			el = u.Elem()
		}
		if el == nil {
			return false
		}
		n := namedOf(el)
		if n == nil || n.Obj().Pkg() == nil || relOf(n.Obj().Pkg().Path()) != pJ || n.Obj().Name() != "Message" {
			return false
		}
		_, isIface := n.Underlying().(*types.Interface)
		return isIface
	}
	sites := 0
	judge := func(f *Func, at ast.Node, val ast.Expr) {
		ce, ok := ast.Unparen(val).(*ast.CallExpr)
		if !ok {
			return
		}
		switch f.BuiltinName(ce) {
		case "append":
			if len(ce.Args) == 0 || !f.IsField(ce.Args[0], respF) {
				return
			}
			sites++
			c.Check(callGuard(f, at), "batch-reply:slot-per-call:"+f.Name()+":append", f, at, "msgBatch.responses grows by a slot only for a message that is a call (IsCall holds where it is appended to)")
		case "make":
			if len(ce.Args) < 2 {
				return
			}
			sites++
			key := "batch-reply:slot-per-call:" + f.Name() + ":make"
			n := ast.Unparen(ce.Args[1])
			if z, isZ := f.ConstInt(n); isZ && z == 0 {
				c.Ok(key, f, at, "msgBatch.responses is allocated empty; its slots come from append")
				return
			}
			if lc, isC := n.(*ast.CallExpr); isC && f.BuiltinName(lc) == "len" && len(lc.Args) == 1 {
				coll := ast.Unparen(lc.Args[0])
				id, isID := coll.(*ast.Ident)
				switch {
				case isID && callsOnly(f, f.ObjOf(id)):
					c.Ok(key, f, at, "msgBatch.responses has len(%s) slots, and %s is filled under IsCall only: one slot per call", exprStr(coll), exprStr(coll))
				case holdsAnyMessage(f, coll) && releasedRaw:
					c.Fail(key, f, at, "msgBatch.responses has len(%s) slots, one per message of the payload whatever its kind; the slot of a notification (or of a response) is never filled, so a batch that mixes one with calls is never answered (the slice is released only as a whole)", exprStr(coll))
				default:
					c.Undecided(key, f, at, "msgBatch.responses has len(%s) slots; what %s counts is not decided here", exprStr(coll), exprStr(coll))
				}
				return
			}
			if id, isID := n.(*ast.Ident); isID && countsCalls(f, f.ObjOf(id)) {
				c.Ok(key, f, at, "msgBatch.responses has %s slots, a counter stepped under IsCall only", id.Name)
				return
			}
			c.Undecided(key, f, at, "msgBatch.responses is allocated with %s slots; what that number counts is not decided here", exprStr(n))
		}
	}
	for _, f := range fns {
		c.touch(f)
		inspectNoLit(f.Body, func(x ast.Node) {
			switch s := x.(type) {
			case *ast.AssignStmt:
				if len(s.Lhs) == len(s.Rhs) {
					for i, l := range s.Lhs {
						if f.IsField(l, respF) {
							judge(f, s, s.Rhs[i])
						}
					}
				}
			case *ast.KeyValueExpr:
				if k, ok := s.Key.(*ast.Ident); ok && f.Info().Uses[k] == types.Object(respF) {
					judge(f, s, s.Value)
				}
			}
		})
	}
	c.Pin("places where msgBatch.responses gets its length behind ioConn.Read", sites, 1)
}

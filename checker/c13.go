package main

import (
	"go/ast"
	"go/token"
	"go/types"
	"strings"

	"golang.org/x/tools/go/cfg"
)

func init() {
	register("C13", rulesC13, nil)
	register("C14", rulesC14, nil)
}

func rulesC13(c *Ctx) {
	c.Import("R-C13-8", "keep-alive's classification of a ping failure (unsupported → stop silently; rejected → a miss, not a broken writer) searches the error chain: errors.Is is asked with the sentinel as target", "C02", "R-C02-13", nil)
	sk := c.Fn(pM, "", "startKeepalive")
	// role anchor: the go literal that pings the session
	ticker := c.Std("time", "", "NewTicker")
	var loop *Func
	var goStmt *ast.GoStmt
	sessionP := sk.ParamOfNamed(pM, "keepaliveSession")
	for _, gs := range sk.goStmts() {
		if l := sk.LitArgOfGo(gs); l != nil {
			// (the ping itself may sit in a literal that the goroutine invokes on the spot)
			for _, call := range l.AllCalls(l.Body, true) {
				if nm, on := l.SelectorOn(call.Fun, sessionP); on && nm == "Ping" {
					loop, goStmt = l, gs
				}
			}
		}
	}
	c.Need(loop != nil, "startKeepalive: goroutine literal that pings the session")
	c.touch(loop)
	g := loop.Graph()
	errIs := c.Std("errors", "", "Is")
	eMNF := c.Obj(pJ, "ErrMethodNotFound")
	thr := sk.ParamWhere(func(t types.Type) bool { b, ok := t.(*types.Basic); return ok && b.Kind() == types.Int })
	interval := sk.ParamWhere(func(t types.Type) bool { return isNamedType(t, "time", "Duration") })
	session := sk.ParamOfNamed(pM, "keepaliveSession")
	c.Need(thr != nil && interval != nil && session != nil, "startKeepalive parameters")
	// the Ping and Close calls on the session parameter
	var pingV, closeV = -1, -1
	var closeVs []int
	var errVar types.Object
	pingF := loop // the function that holds the Ping call: the goroutine, or a literal it invokes on the spot
	for v := 0; v < g.N; v++ {
		n := g.Node(v)
		if n == nil {
			continue
		}
		for _, call := range loop.AllCalls(n, true) {
			s, ok := ast.Unparen(call.Fun).(*ast.SelectorExpr)
			if !ok || loop.ObjOf(s.X) != types.Object(session) {
				continue
			}
			inLit := c13pingLit(loop, n, call)
			if inLit == nil && !c13directIn(loop, n, call) {
				continue // inside a literal that is not invoked on the spot: not this vertex's call
			}
			switch s.Sel.Name {
			case "Ping":
				pingV = v
				pingF = loop
				if inLit != nil {
					pingF = inLit
				}
				if as, ok := n.(*ast.AssignStmt); ok && len(as.Lhs) == 1 {
					errVar = loop.ObjOf(as.Lhs[0])
				}
			case "Close":
				if inLit != nil {
					continue
				}
				closeV = v
				closeVs = append(closeVs, v)
			}
		}
	}
	c.Need(pingV >= 0 && closeV >= 0 && errVar != nil, "keepalive loop: session.Ping and session.Close")

	c.Rule("R-C13-1", "the miss counter is a correct failure detector: reset on every answered ping, incremented once per failed ping, and Close is reached only when the counter is not below the (normalised) threshold; method-not-found ends keep-alive without closing", func() {
		// the miss counter: the incremented variable that a branch condition compares (a second tally that is only
		// logged decides nothing)
		var ctr types.Object
		for _, w := range Writes(loop.Body, false) {
			if _, ok := w.Stmt.(*ast.IncDecStmt); !ok {
				continue
			}
			o := loop.ObjOf(w.LHS)
			decides := false
			for _, cv := range g.condVertices() {
				ast.Inspect(g.Node(cv-1), func(n ast.Node) bool {
					if id, ok := n.(*ast.Ident); ok && loop.ObjOf(id) == o && o != nil {
						decides = true
					}
					return !decides
				})
			}
			if decides || ctr == nil {
				ctr = o
			}
		}
		c.Need(ctr != nil, "keepalive loop: miss counter")
		// decisions that are first classified and then acted upon (a verdict local set in one place, switched on in another)
		// are followed: reachability below knows the verdict's value
		vw := c13newView(loop, g)
		nReset, nInc := 0, 0
		incV := -1
		for _, w := range loop.writesToVar(loop.Body, ctr, false) {
			wv := g.VertexOf(w)
			guards := g.GuardsAt(wv)
			switch st := w.(type) {
			case *ast.AssignStmt:
				v, isC := loop.ConstInt(st.Rhs[0])
				if st.Tok == token.DEFINE {
					c.Check(isC && v == 0 && !g.ReachableFrom(pingV)[wv], "counter:starts-at-zero", loop, w, "the counter starts at 0 before the loop")
					continue
				}
				nReset++
				c.Check(isC && v == 0 && hasAtom(guards, func(a Atom) bool {
					return AtomSaysNil(a, true, func(e ast.Expr) bool { return loop.ObjOf(e) == errVar })
				}), "counter:reset-on-success", loop, w, "the counter is reset to 0 exactly on a successful ping (guards: %s)", atomsString(guards))
			case *ast.IncDecStmt:
				nInc++
				incV = wv
				okG := st.Tok == token.INC && hasAtom(guards, func(a Atom) bool {
					return AtomSaysNil(a, false, func(e ast.Expr) bool { return loop.ObjOf(e) == errVar })
				}) &&
					hasAtom(guards, func(a Atom) bool {
						ce, ok := a.E.(*ast.CallExpr)
						return ok && !a.Val && loop.IsCallTo(ce, errIs) && loop.ObjOf(ce.Args[1]) == eMNF
					})
				c.Check(okG, "counter:increment-on-failure", loop, w, "incremented on a failed ping that is not method-not-found (guards: %s)", atomsString(guards))
			default:
				c.Fail("counter:write", loop, w, "unexpected write to the miss counter")
			}
		}
		c.Check(nReset == 1 && nInc == 1, "counter:one-reset-one-increment", loop, nil, "one reset and one increment site (%d/%d)", nReset, nInc)
		// success path resets on every path: from the err==nil branch every path back to the select passes the reset
		for _, cv := range g.condVertices() {
			cond := g.Node(cv - 1).(ast.Expr)
			if x, twn, ok := NilTest(cond); ok && loop.ObjOf(x) == errVar {
				t, f := g.BranchTargets(cv - 1)
				succ := f
				if twn {
					succ = t
				}
				isReset := func(v int) bool {
					for _, w := range loop.writesToVar(g.Node(v), ctr, false) {
						if as, ok := w.(*ast.AssignStmt); ok && as.Tok == token.ASSIGN {
							return true
						}
					}
					return false
				}
				okp, _ := g.MustPass(succ, append([]int{pingV, closeV}, g.Exits...), func(v int) bool { return g.Node(v) != nil && isReset(v) })
				if g.Node(succ) != nil && isReset(succ) {
					okp = true
				}
				c.Check(okp, "counter:every-success-resets", loop, cond, "after an answered ping no path reaches the next ping, Close or exit without resetting the counter")
				// no path from success to Close without a new failed ping
				seen := vw.reach([]int{succ}, func(v int) bool { return v == pingV }, nil)
				c.Check(!seen[closeV], "close:unreachable-from-success", loop, g.Node(closeV), "an answering peer is never closed: Close is unreachable from the success branch without another ping")
			}
		}
		// threshold normalisation precedes the goroutine
		sg := sk.Graph()
		okNorm := false
		for _, w := range sk.writesToVar(sk.Body, thr, false) {
			if as, ok := w.(*ast.AssignStmt); ok {
				if v, isC := sk.ConstInt(as.Rhs[0]); isC && v == 1 {
					wg := sg.GuardsAt(sg.VertexOf(w))
					if hasAtom(wg, func(a Atom) bool {
						x, y, op, ok := binaryCmp(a.E)
						z, isZ := sk.ConstInt(y)
						return ok && op == token.LSS && a.Val && sk.ObjOf(x) == types.Object(thr) && isZ && z == 1
					}) && sg.ReachableFrom(sg.VertexOf(w))[sg.VertexOf(goStmt)] {
						okNorm = true
					}
				}
			}
		}
		// the same through the builtin: failureThreshold = max(failureThreshold, 1)
		for _, w := range sk.writesToVar(sk.Body, thr, false) {
			if as, ok := w.(*ast.AssignStmt); ok && len(as.Rhs) == 1 {
				if ce, isC := ast.Unparen(as.Rhs[0]).(*ast.CallExpr); isC && sk.BuiltinName(ce) == "max" && len(ce.Args) == 2 {
					hasThr, hasOne := false, false
					for _, a := range ce.Args {
						if sk.ObjOf(a) == types.Object(thr) {
							hasThr = true
						}
						if v, isK := sk.ConstInt(a); isK && v == 1 {
							hasOne = true
						}
					}
					if hasThr && hasOne && len(sg.GuardsAt(sg.VertexOf(w))) == 0 && sg.ReachableFrom(sg.VertexOf(w))[sg.VertexOf(goStmt)] {
						okNorm = true
					}
				}
			}
		}
		// the comparison of the counter that decides, as a whole condition: which branch closes, and what the counter is compared
		// with in terms of the configured threshold
		type c13cmp struct {
			ev, closeEdge int
			a, b          int64
			hasMax        bool
		}
		var cmps []c13cmp
		for _, cv := range g.condVertices() {
			cond := g.Node(cv - 1).(ast.Expr)
			neg := false
			inner := ast.Unparen(cond)
			for {
				in, isNeg := stripNot(inner)
				if !isNeg {
					break
				}
				inner, neg = ast.Unparen(in), !neg
			}
			x, y, op, isCmp := cmpOn(inner, func(e ast.Expr) bool { return loop.ObjOf(e) == ctr })
			if !isCmp || loop.ObjOf(x) != ctr {
				continue
			}
			a, b, hasMax, okB := c13bound(loop, y, thr, okNorm, 0)
			if !okB {
				continue
			}
			edge := -1
			switch op {
			case token.LSS:
				edge = 1
			case token.LEQ:
				edge, a, b = 1, a+1, b+1
			case token.GEQ:
				edge = 0
			case token.GTR:
				edge, a, b = 0, a+1, b+1
			}
			if edge < 0 {
				continue
			}
			if neg {
				edge = 1 - edge
			}
			cmps = append(cmps, c13cmp{cv, edge, a, b, hasMax})
		}
		okNormEff := false
		// Close guards (every Close site of the loop)
		for i, closeV := range closeVs {
			guards := g.GuardsAt(closeV)
			// the same two obligations asked of reachability: Close only over the closing branch of the comparison, the comparison
			// and Close only after the increment, the comparison made with the threshold itself
			okThrReach, okMNFReach := false, false
			fromPing := g.succ[pingV]
			for _, cm := range cmps {
				viaOther := vw.reach(fromPing, func(v int) bool { return v == pingV }, func(u, k int) bool { return u == cm.ev && k == cm.closeEdge })
				noInc := vw.reach(fromPing, func(v int) bool { return v == pingV || v == incV }, nil)
				if incV >= 0 && !viaOther[closeV] && !noInc[closeV] && !noInc[cm.ev-1] && !noInc[cm.ev] && cm.a == 0 {
					okThrReach = true
				}
				// (the clamp of small thresholds is a matter of its own: max(thr+a, b) with b-a = 1 starts to act below thr = 1)
				if incV >= 0 && !viaOther[closeV] && cm.hasMax && cm.b-cm.a == 1 {
					okNormEff = true
				}
			}
			for _, cv := range g.condVertices() {
				cond := g.Node(cv - 1).(ast.Expr)
				in, neg := stripNot(cond)
				ce, isCall := ast.Unparen(in).(*ast.CallExpr)
				if !isCall || !loop.IsCallTo(ce, errIs) || loop.ObjOf(ce.Args[1]) != eMNF {
					continue
				}
				t, f := g.BranchTargets(cv - 1)
				if neg {
					t = f
				}
				onMNF := vw.reach([]int{t}, func(v int) bool { return v == pingV }, nil)
				around := vw.reach(fromPing, func(v int) bool { return v == pingV || v == cv-1 }, nil)
				if !onMNF[closeV] && t != closeV && !around[closeV] {
					okMNFReach = true
				}
			}
			okThr := hasAtom(guards, func(a Atom) bool {
				x, y, op, ok := cmpOn(a.E, func(e ast.Expr) bool { return loop.ObjOf(e) == ctr })
				if !ok || loop.ObjOf(x) != ctr || !loop.Root().aliasesOf(loop.ObjOf(y))[types.Object(thr)] {
					return false
				}
				return (op == token.LSS && !a.Val) || (op == token.GEQ && a.Val)
			})
			c.Check((okThr && incV >= 0 && g.Dominates(incV, closeV)) || okThrReach, "close#"+itoa(i)+":only-at-threshold", loop, g.Node(closeV), "session.Close() is reached only through the false branch of counter < threshold, after the increment (guards: %s): with <= or a missing increment the session closes one ping early or late", atomsString(guards))
			c.Check(okMNFReach || hasAtom(guards, func(a Atom) bool {
				ce, ok := a.E.(*ast.CallExpr)
				return ok && !a.Val && loop.IsCallTo(ce, errIs) && loop.ObjOf(ce.Args[1]) == eMNF
			}), "close#"+itoa(i)+":not-on-method-not-found", loop, g.Node(closeV), "a peer that reports ping as unsupported is not closed")
		}
		c.Pin("Close sites", len(closeVs), 1)
		// method-not-found returns silently
		okMNF := false
		for _, cv := range g.condVertices() {
			cond := g.Node(cv - 1).(ast.Expr)
			if ce, ok := ast.Unparen(cond).(*ast.CallExpr); ok && loop.IsCallTo(ce, errIs) && loop.ObjOf(ce.Args[1]) == eMNF {
				t, _ := g.BranchTargets(cv - 1)
				seen := vw.reach([]int{t}, nil, nil)
				okMNF = !seen[closeV] && !seen[pingV] && (incV < 0 || !seen[incV])
			}
		}
		c.Check(okMNF, "method-not-found:silent-exit", loop, nil, "on method-not-found the goroutine exits without counting, pinging again or closing")
		// after Close the loop ends
		seen, _ := g.reach(g.succ[closeV], nil, nil)
		c.Check(!seen[pingV], "close:then-exit", loop, g.Node(closeV), "after closing the session the goroutine exits")
		c.Check(okNorm || okNormEff, "threshold:normalised", sk, nil, "failureThreshold < 1 is normalised to 1 before the goroutine starts")
	})

	c.Rule("R-C13-2", "timing structure: fixed tick period, per-ping timeout a constant fraction (≤ 1) of the interval and always released, loop exits on cancellation", func() {
		// the period is kept by one time.Ticker that lives across iterations (a timer re-created per iteration, such as
		// time.After in the select, restarts only after each ping returned: N timed-out pings then take N·1.5 intervals)
		tcalls := loop.CallsIn(loop.Body, ticker, false)
		okTick := false
		if len(tcalls) == 1 {
			tv := loop.VarFromCall(ticker, 0)
			inspectNoLit(loop.Body, func(n ast.Node) {
				fs, isFor := n.(*ast.ForStmt)
				if !isFor || len(fs.Body.List) == 0 || encloses(fs, tcalls[0]) {
					return
				}
				// the ticker is created before the loop is entered
				inLoop := -1
				for u := 0; u < g.N && inLoop < 0; u++ {
					if nd := g.Node(u); nd != nil && encloses(fs.Body, nd) {
						inLoop = u
					}
				}
				if !g.Dominates(g.VertexOf(tcalls[0]), inLoop) {
					return
				}
				ast.Inspect(fs.Body, func(m ast.Node) bool {
					if cc, ok := m.(*ast.CommClause); ok && cc.Comm != nil {
						if ch, isSend := commChan(cc.Comm); ch != nil && !isSend {
							if nm, on := loop.SelectorOn(ch, tv); on && nm == "C" && tv != nil {
								okTick = true
							}
						}
					}
					return true
				})
			})
		}
		c.Check(okTick, "ticker:one-ticker-across-iterations", loop, nil, "the loop waits on the channel of a single time.NewTicker created before the loop (%d NewTicker calls in the goroutine)", len(tcalls))
		for _, fn := range []string{"After", "NewTimer", "AfterFunc", "Sleep"} {
			if n := len(loop.CallsIn(loop.Body, c.Std("time", "", fn), true)); n > 0 {
				c.Fail("ticker:no-per-iteration-timer:"+fn, loop, nil, "time.%s is used in the keep-alive goroutine: waits that start after a ping returned stretch the period by the ping's duration", fn)
			}
		}
		// ticker period is the interval parameter; never Reset; Stop deferred
		for _, call := range loop.CallsIn(loop.Body, ticker, false) {
			c.Check(loop.ObjOf(call.Args[0]) == types.Object(interval), "ticker:period-is-interval", loop, call, "the ticker period is the configured interval")
		}
		resets := 0
		for _, call := range loop.AllCalls(loop.Body, false) {
			if fn := loop.Callee(call); fn != nil && fn.Name() == "Reset" && fn.Pkg() != nil && fn.Pkg().Path() == "time" {
				resets++
				c.Fail("ticker:reset-in-loop", loop, call, "the ticker is re-armed inside the loop: the tick phase then drifts by the time each failed ping took, so a dead peer is closed later than N intervals + one timeout")
			}
		}
		if resets == 0 {
			c.Ok("ticker:never-reset", loop, nil, "the ticker is never reset: ticks keep a fixed phase")
		}
		okStop := false
		inspectNoLit(loop.Body, func(n ast.Node) {
			if d, ok := n.(*ast.DeferStmt); ok {
				if s, ok := ast.Unparen(d.Call.Fun).(*ast.SelectorExpr); ok && s.Sel.Name == "Stop" {
					okStop = true
				}
			}
		})
		c.Check(okStop, "ticker:stop-deferred", loop, nil, "ticker.Stop is deferred")
		// ping context
		wt := c.Std("context", "", "WithTimeout")
		bg := c.Std("context", "", "Background")
		n := 0
		wtCalls := loop.CallsIn(loop.Body, wt, false)
		if pingF != loop {
			wtCalls = append(wtCalls, pingF.CallsIn(pingF.Body, wt, false)...)
		}
		for _, call := range wtCalls {
			n++
			cf := loop
			if pingF != loop && encloses(pingF.Body, call) {
				cf = pingF
			}
			parentOK := false
			if ce, ok := ast.Unparen(call.Args[0]).(*ast.CallExpr); ok && cf.IsCallTo(ce, bg) {
				parentOK = true
			}
			// the deadline as a fraction of the interval, followed through locals that are computed once (interval/2 hoisted
			// out of the loop, halved again where it is used, …)
			num, den, isFrac := c13fraction(cf, call.Args[1], interval, 0)
			frac := isFrac && num >= 1 && den >= num
			c.Check(parentOK && frac, "ping:timeout", cf, call, "each ping runs under WithTimeout(Background, interval/k) with constant k >= 1 (got %s)", exprStr(call.Args[1]))
			if parentOK && frac {
				c.Check(num*2 == den, "ping:timeout-is-half-an-interval", cf, call, "a ping may take half an interval (the deadline is %d/%d of it): with a shorter one a peer that answers within the documented half interval is counted as a miss and closed, with a longer one a dead peer is closed later than N intervals plus half", num, den)
			}
			if cf != loop {
				// the ping runs in a literal of its own: the context is released when that literal returns
				as, _ := cf.ParentOf(call).(*ast.AssignStmt)
				var cancel types.Object
				if as != nil && len(as.Lhs) == 2 {
					cancel = cf.ObjOf(as.Lhs[1])
				}
				okC := false
				inspectNoLit(cf.Body, func(x ast.Node) {
					if d, isD := x.(*ast.DeferStmt); isD && cancel != nil && cf.ObjOf(d.Call.Fun) == cancel && cf.ParentOf(d) == ast.Node(cf.Body) {
						okC = true
					}
				})
				for _, cc := range cf.AllCalls(cf.Body, false) {
					if cancel != nil && cf.ObjOf(cc.Fun) == cancel {
						if _, isD := cf.ParentOf(cc).(*ast.DeferStmt); !isD {
							cg := cf.Graph()
							pv := -1
							for _, pc := range cf.AllCalls(cf.Body, false) {
								if nm, on := cf.SelectorOn(pc.Fun, session); on && nm == "Ping" {
									pv = cg.VertexOf(pc)
								}
							}
							if pv >= 0 {
								if okp, _ := cg.MustPass(pv, cg.Exits, func(u int) bool { return u == cg.VertexOf(cc) }); okp {
									okC = true
								}
							}
						}
					}
				}
				c.Check(okC, "ping:timeout-released", cf, call, "the ping context's cancel function is called after every ping before anything else happens")
				continue
			}
			// cancel called right after the ping on all paths
			as, _ := loop.ParentOf(call).(*ast.AssignStmt)
			var cancel types.Object
			if as != nil && len(as.Lhs) == 2 {
				cancel = loop.ObjOf(as.Lhs[1])
			}
			okC := false
			for v := 0; v < g.N; v++ {
				if nd := g.Node(v); nd != nil {
					for _, cc := range loop.AllCalls(nd, false) {
						if loop.ObjOf(cc.Fun) == cancel && cancel != nil && g.Dominates(pingV, v) {
							okp, _ := g.MustPass(pingV, append([]int{closeV}, g.Exits...), func(u int) bool { return u == v })
							okC = okp
						}
					}
				}
			}
			c.Check(okC, "ping:timeout-released", loop, call, "the ping context's cancel function is called after every ping before anything else happens")
		}
		c.Pin("ping contexts", n, 1)
		// loop select has a ctx.Done arm that returns
		okDone := false
		inspectNoLit(loop.Body, func(x ast.Node) {
			cc, ok := x.(*ast.CommClause)
			if !ok || cc.Comm == nil {
				return
			}
			if ch, isSend := commChan(cc.Comm); ch != nil && !isSend {
				if ce, ok := ast.Unparen(ch).(*ast.CallExpr); ok && loop.Callee(ce) != nil && loop.Callee(ce).Name() == "Done" {
					for _, st := range cc.Body {
						if _, isRet := st.(*ast.ReturnStmt); isRet {
							okDone = true
						}
					}
				}
			}
		})
		c.Check(okDone, "loop:exits-on-cancel", loop, nil, "the loop's select returns when the keep-alive context is cancelled")
	})

	c.Rule("R-C13-3", "wiring: the cancel function is published before the goroutine starts; keep-alive runs only when configured; Close cancels it", func() {
		sg := sk.Graph()
		cp := sk.ParamWhere(func(t types.Type) bool {
			pt, ok := t.(*types.Pointer)
			return ok && isNamedType(pt.Elem(), "context", "CancelFunc")
		})
		c.Need(cp != nil, "startKeepalive: *context.CancelFunc parameter")
		okPub := false
		for _, w := range Writes(sk.Body, false) {
			if st, ok := ast.Unparen(w.LHS).(*ast.StarExpr); ok && sk.ObjOf(st.X) == types.Object(cp) {
				if sg.Dominates(sg.VertexOf(w.Stmt), sg.VertexOf(goStmt)) {
					okPub = true
				}
			}
		}
		c.Check(okPub, "startKeepalive:cancel-published-first", sk, nil, "*cancelPtr = cancel dominates the go statement (a Close racing the start can always cancel)")
		for _, side := range []struct{ typ, conn string }{{"Server", "ServerSession"}, {"Client", "ClientSession"}} {
			f := c.Fn(pM, side.typ, "Connect")
			fg := f.Graph()
			skm := c.FnObj(pM, side.conn, "startKeepalive")
			n := 0
			for _, v := range fg.callVertices(skm) {
				n++
				guards := fg.GuardsAt(v)
				c.Check(hasAtom(guards, func(a Atom) bool {
					x, y, op, ok := binaryCmp(a.E)
					z, isZ := f.ConstInt(y)
					s, isS := ast.Unparen(x).(*ast.SelectorExpr)
					return ok && op == token.GTR && a.Val && isS && s.Sel.Name == "KeepAlive" && isZ && z == 0
				}), side.typ+".Connect:keepalive-only-when-configured", f, fg.Node(v), "keep-alive is started only under KeepAlive > 0 (guards: %s)", atomsString(guards))
				if nl, what := fg.gateLeaves(v, true); true {
					c.Check(nl == 1, side.typ+".Connect:keepalive-whenever-configured", f, fg.Node(v), "KeepAlive > 0 is the only test in front of startKeepalive (%d: %s): a session for which it is never started is never closed, however dead its peer", nl, what)
				}
			}
			c.Pin(side.typ+".Connect startKeepalive", n, 1)
			cl := c.Fn(pM, side.conn, "Close")
			ka := c.Field(pM, side.conn, "keepaliveCancel")
			okC := false
			for _, call := range cl.AllCalls(cl.Body, false) {
				if cl.IsField(call.Fun, ka) {
					okC = true
				}
			}
			c.Check(okC, side.conn+".Close:cancels-keepalive", cl, nil, "Close calls keepaliveCancel")
			// … before it waits for the connection: conn.Close blocks until running handlers return, and a keep-alive that is
			// still ticking meanwhile pings a closing connection, fails, and logs an error instead of ending silently
			clg := cl.Graph()
			connClose := c.FnObj(pJ, "Connection", "Close")
			okOrd := false
			for _, cv := range clg.callVertices(connClose) {
				for _, call := range cl.AllCalls(cl.Body, false) {
					// a deferred call runs when Close returns, i.e. after conn.Close: that is not "first"
					_, deferred := cl.ParentOf(call).(*ast.DeferStmt)
					if cl.IsField(call.Fun, ka) && !deferred && clg.ReachableFrom(clg.VertexOf(call))[cv] && !clg.ReachableFrom(cv)[clg.VertexOf(call)] {
						// every path to conn.Close on which a cancel function exists passes the call
						okOrd = true
					}
				}
			}
			c.Check(okOrd, side.conn+".Close:cancels-keepalive-first", cl, nil, "keepaliveCancel() is called before conn.Close()")
			// nothing but Close stops the detector: the cancel function is referenced in Close (test and call) and handed to
			// startKeepalive by address, nowhere else (tied to a context, a timer or a callback it would stop while the session
			// is still in use — and a dead peer would never be noticed)
			nRef := 0
			for _, f := range c.funcsWithLits(pM) {
				for _, sel := range f.FieldRefs(f.Body, ka, false) {
					nRef++
					root := f.Root()
					okRef := root == cl
					if u, isAddr := f.ParentOf(sel).(*ast.UnaryExpr); isAddr && u.Op == token.AND {
						if call, isCall := f.ParentOf(u).(*ast.CallExpr); isCall && f.Callee(call) != nil && f.Callee(call).Origin() == sk.Obj {
							okRef = true
						}
					}
					c.Check(okRef, side.conn+".keepaliveCancel:only-Close-stops-it:"+root.Name(), f, sel, "keepaliveCancel is used by Close and passed by address to startKeepalive only")
				}
			}
			c.Pin(side.conn+": references of keepaliveCancel", nRef, 3)
		}
	})

	c.Rule("R-C13-8", "the detector sees the peer's answer to ping as it is: Ping returns the error of the send itself or wraps it with %w, so that errors.Is(err, ErrMethodNotFound) recognises a peer that does not implement ping (and the detector ends silently instead of closing a healthy session)", func() {
		n := 0
		for _, typ := range []string{"ServerSession", "ClientSession"} {
			pg := c.Fn(pM, typ, "Ping")
			var errs []types.Object
			for _, w := range Writes(pg.Body, false) {
				if id, ok := w.LHS.(*ast.Ident); ok && id.Name != "_" && pg.TypeOf(id) != nil && pg.TypeOf(id).String() == "error" {
					if _, isCall := ast.Unparen(w.RHS).(*ast.CallExpr); isCall || w.RHS == nil {
						errs = append(errs, pg.ObjOf(id))
					}
				}
			}
			for i, r := range pg.Returns() {
				if len(r.Results) != 1 || isNilIdent(r.Results[0]) {
					continue
				}
				n++
				e := ast.Unparen(r.Results[0])
				ok := false
				for _, ev := range errs {
					if pg.ObjOf(e) == ev || pg.WrapsObj(e, ev) {
						ok = true
					}
				}
				if ce, isC := e.(*ast.CallExpr); isC && !ok {
					// return handleSend(...) style: the error of the send is returned directly
					if fn := pg.Callee(ce); fn != nil && fn.Pkg() != nil && fn.Pkg().Path() != "fmt" && fn.Pkg().Path() != "errors" {
						ok = true
					}
				}
				c.Check(ok, typ+".Ping:error-returned-as-is#"+itoa(i), pg, r, "Ping hands back the send's error itself or a %%w wrapping of it")
			}
		}
		c.Pin("error returns of the two Ping methods", n, 2)
	})

	c.Import("R-C13-7", "keep-alive ends silently when the peer reports ping as unsupported, also when the report arrives as an HTTP error status with a JSON-RPC body: the streamable client wraps the peer's error with %w, so errors.Is(err, ErrMethodNotFound) still sees -32601", "C19", "R-C19-9", func(k string) bool {
		return strings.Contains(k, "peer-error-wrapped") || strings.Contains(k, "errors wrapping both")
	})
	c.Rule("R-C13-5", "the streamable client marks a message that did not reach the server as rejected (wrapping jsonrpc2.ErrRejected with %w), so a failed ping POST is a miss and not a broken writer: the connection survives to the next ping", func() {
		wr := c.Fn(pM, "streamableClientConn", "Write")
		rej := c.Obj(pJ, "ErrRejected")
		sites := []struct {
			key    string
			callee *types.Func
		}{
			{"http.Client.Do", c.Std("net/http", "Client", "Do")},
			{"setMCPHeaders", c.FnObj(pM, "streamableClientConn", "setMCPHeaders")},
			{"OAuthHandler.Authorize", c.P.StdFunc(modPath+"/auth", "OAuthHandler", "Authorize")},
		}
		for _, s := range sites {
			c.Need(s.callee != nil, "callee "+s.key)
			n := 0
			for _, f := range append([]*Func{wr}, wr.AllLits()...) {
				for _, call := range f.CallsIn(f.Body, s.callee, false) {
					n++
					ok, why := f.failureWraps(call, rej)
					c.Check(ok, "Write:"+s.key+"-failure-is-rejected#"+itoa(n), f, call, "every return behind a failure of %s wraps ErrRejected with %%w (errors.Is must see it; %%v or a plain error makes jsonrpc2 record a write error and the session dies after one miss) %s", s.key, why)
				}
			}
			c.Pin("calls of "+s.key+" in streamableClientConn.Write", n, 1)
		}
		// transient HTTP statuses likewise
		cr := c.Fn(pM, "streamableClientConn", "checkResponse")
		cg := cr.Graph()
		tr := c.FnObj(pM, "", "isTransientHTTPStatus")
		nT := 0
		for _, cv := range cg.condVertices() {
			ce, isCall := ast.Unparen(cg.Node(cv - 1).(ast.Expr)).(*ast.CallExpr)
			if !isCall || !cr.IsCallTo(ce, tr) {
				continue
			}
			nT++
			t, _ := cg.BranchTargets(cv - 1)
			seen, _ := cg.reach([]int{t}, nil, nil)
			seen[t] = true
			okAll := true
			for _, x := range cg.Exits {
				if seen[x] {
					r, isR := cg.Node(x).(*ast.ReturnStmt)
					if !isR || len(r.Results) != 1 || !cr.WrapsObj(r.Results[0], rej) {
						okAll = false
					}
				}
			}
			c.Check(okAll, "checkResponse:transient-status-is-rejected", cr, ce, "502/503/504/429/500 answers are returned wrapping ErrRejected")
		}
		c.Pin("isTransientHTTPStatus tests in checkResponse", nT, 1)
		// and jsonrpc2 honours the mark (R-C13-4 checks the guard itself)
	})

	c.Rule("R-C13-6", "the two classifications keep-alive relies on are what they say: a peer's error is 'method not found' by its code alone (whatever data it carries), and the HTTP statuses that count as a transient miss are 500, 502, 503, 504 and 429", func() {
		is := c.Fn(pJ, "WireError", "Is")
		codeF := c.Field(pJ, "WireError", "Code")
		okIs := false
		for _, r := range is.Returns() {
			if len(r.Results) != 1 || exprStr(r.Results[0]) == "false" {
				continue
			}
			x, y, op, isCmp := binaryCmp(r.Results[0])
			okIs = isCmp && op == token.EQL && is.IsField(x, codeF) && is.IsField(y, codeF)
		}
		c.Check(okIs, "WireError.Is:codes-only", is, nil, "(*WireError).Is answers with a single comparison of the two codes: errors.Is(err, ErrMethodNotFound) must hold for any -32601 reply, also one with an error.data member")
		tr := c.Fn(pM, "", "isTransientHTTPStatus")
		got := map[int64]bool{}
		inspectNoLit(tr.Body, func(n ast.Node) {
			cc, ok := n.(*ast.CaseClause)
			if !ok {
				return
			}
			trueCase := false
			for _, st := range cc.Body {
				if r, isR := st.(*ast.ReturnStmt); isR && len(r.Results) == 1 && exprStr(r.Results[0]) == "true" {
					trueCase = true
				}
			}
			if trueCase {
				for _, e := range caseValues(cc) {
					if v, isC := tr.ConstInt(e); isC {
						got[v] = true
					}
				}
			}
		})
		for _, st := range []int64{500, 502, 503, 504, 429} {
			c.Check(got[st], "isTransientHTTPStatus:"+itoa(int(st)), tr, nil, "HTTP %d on a POST is a per-message rejection (one missed ping), not the end of the session", st)
		}
		c.Check(len(got) == 5, "isTransientHTTPStatus:nothing-else", tr, nil, "exactly these five statuses are transient (%d found)", len(got))
	})

	c.Rule("R-C13-4", "a ping whose write times out does not poison the connection (shared with R-C04-6): later pings still reach the peer, so a live peer is not closed after one miss", func() { ruleWriteErrGuard(c) })
}

func rulesC14(c *Ctx) {
	v := c.Fn("auth", "", "verify")
	g := v.Graph()
	// the admitting return: code constant 0
	var admit *ast.ReturnStmt
	for _, r := range v.Returns() {
		if len(r.Results) == 3 {
			if z, ok := v.ConstInt(r.Results[2]); ok && z == 0 {
				c.Need(admit == nil, "verify: a single admitting return")
				admit = r
			}
		}
	}
	if admit == nil {
		// no return with the constant status 0: the return that hands a TokenInfo to the caller with a status that is not a
		// constant refusal is what admits (the rules below then ask whether it is reachable with a failing check)
		for _, r := range v.Returns() {
			if len(r.Results) == 3 && !isNilIdent(r.Results[0]) {
				if _, isConst := v.ConstInt(r.Results[2]); !isConst && admit == nil {
					admit = r
				}
			}
		}
	}
	c.Need(admit != nil, "verify: return with code 0")
	av := g.VertexOf(admit)
	codeOf := func(r *ast.ReturnStmt) int64 {
		if len(r.Results) == 3 {
			if z, ok := v.ConstInt(r.Results[2]); ok {
				return z
			}
		}
		return -1
	}
	// altScope403: a 403 refusal that no slices.Contains test stands in front of, decided instead by tests on the granted or
	// required scope lists (their lengths, a set built from them): scope containment is (also) computed by a mechanism other
	// than the per-scope Contains loop. What that mechanism answers is not expressed by a valuation of Contains, so a scenario
	// that only assumes "Contains holds" cannot decide such a return.
	altScope403 := func(r *ast.ReturnStmt) bool {
		if codeOf(r) != 403 {
			return false
		}
		guards := g.GuardsAt(g.VertexOf(r))
		mentionsScopes := false
		for _, a := range guards {
			hasContains := false
			ast.Inspect(a.E, func(n ast.Node) bool {
				switch x := n.(type) {
				case *ast.CallExpr:
					if fn := v.Callee(x); fn != nil && fn.Name() == "Contains" {
						hasContains = true
					}
				case *ast.SelectorExpr:
					if fv, isF := v.ObjOf(x.Sel).(*types.Var); isF && fv.IsField() && fv.Name() == "Scopes" {
						mentionsScopes = true
					}
				}
				return true
			})
			if hasContains {
				return false
			}
		}
		if !mentionsScopes {
			return false
		}
		// … and it is taken after a loop over one of the scope lists has run (a set or tally was built): a plain test of a
		// length in front of everything is no containment mechanism, and is judged by the scenarios as it stands
		afterLoop := false
		inspectNoLit(v.Body, func(n ast.Node) {
			rs, ok := n.(*ast.RangeStmt)
			if !ok {
				return
			}
			if sel, isSel := ast.Unparen(v.valueOf(rs.X)).(*ast.SelectorExpr); isSel && sel.Sel.Name == "Scopes" && !encloses(rs, r) {
				if g.Dominates(g.VertexOf(rs.X), g.VertexOf(r)) {
					afterLoop = true
				}
			}
		})
		return afterLoop
	}
	wants := func(want []int64, k int64) bool {
		for _, w := range want {
			if w == k {
				return true
			}
		}
		return false
	}
	scenario := func(key string, leaf func(ast.Expr) tri, want []int64, why string) {
		seen := g.ReachUnder(leaf, nil)
		c.paths++
		got := map[int64]bool{}
		altSeen := false
		for _, r := range v.Returns() {
			if !seen[g.VertexOf(r)] {
				continue
			}
			if !wants(want, 403) && altScope403(r) {
				altSeen = true
				continue
			}
			k := codeOf(r)
			if k == -1 && len(r.Results) == 3 {
				// the code is a variable: the constants assigned to it on the paths this scenario can take — an assignment
				// counts when it is reachable in the scenario and reaches the return without passing another assignment
				if cv, isV := v.ObjOf(r.Results[2]).(*types.Var); isV && !cv.IsField() {
					var constsAt func(cv *types.Var, rv int, depth int) (map[int64]bool, bool)
					constsAt = func(cv *types.Var, rv int, depth int) (map[int64]bool, bool) {
						out := map[int64]bool{}
						if depth > 3 {
							return out, false
						}
						var ws []Write
						for _, w := range Writes(v.Body, false) {
							if v.ObjOf(w.LHS) == types.Object(cv) {
								if _, isVS := w.Stmt.(*ast.ValueSpec); isVS && w.RHS == nil {
									continue
								}
								ws = append(ws, w)
							}
						}
						isW := func(u int) bool {
							for _, w := range ws {
								if g.VertexOf(w.Stmt) == u {
									return true
								}
							}
							return false
						}
						if len(ws) == 0 {
							return out, false
						}
						for _, w := range ws {
							wv := g.VertexOf(w.Stmt)
							if !seen[wv] {
								continue
							}
							if reach, _ := g.reach(g.succ[wv], isW, nil); !reach[rv] && wv != rv {
								continue
							}
							if w.RHS == nil {
								return out, false
							}
							if z, isC := v.ConstInt(w.RHS); isC {
								out[z] = true
								continue
							}
							if src, isSrc := v.ObjOf(w.RHS).(*types.Var); isSrc && !src.IsField() {
								sub, okSub := constsAt(src, wv, depth+1)
								if !okSub {
									return out, false
								}
								for z := range sub {
									out[z] = true
								}
								continue
							}
							return out, false
						}
						return out, true
					}
					if set, okSet := constsAt(cv, g.VertexOf(r), 0); okSet && len(set) > 0 {
						for z := range set {
							got[z] = true
						}
						continue
					}
				}
			}
			got[k] = true
		}
		ok := !seen[av]
		for k := range got {
			found := false
			for _, w := range want {
				if k == w {
					found = true
				}
			}
			if !found {
				ok = false
			}
		}
		var gs []int64
		for k := range got {
			gs = append(gs, k)
		}
		if ok && len(got) > 0 && altSeen {
			c.Undecided(key, v, nil, "%s: reachable codes %v as expected, but a 403 refusal stays reachable that is decided by a scope-containment mechanism other than the Contains loop (not expressed by this valuation)", why, gs)
			return
		}
		c.Check(ok && len(got) > 0, key, v, nil, "%s: admitting return reachable=%v, reachable codes %v (expected only %v)", why, seen[av], gs, want)
	}
	// the converse direction: under a valuation in which every check passes, admission is reachable and no rejection is
	admits := func(key string, leaf func(ast.Expr) tri, why string) {
		seen := g.ReachUnder(leaf, nil)
		c.paths++
		var rej []int64
		altSeen := false
		for _, r := range v.Returns() {
			if seen[g.VertexOf(r)] && r != admit {
				if altScope403(r) {
					altSeen = true
					continue
				}
				rej = append(rej, codeOf(r))
			}
		}
		if seen[av] && len(rej) == 0 && altSeen {
			c.Undecided(key, v, admit, "%s: admission is reachable and no other rejection is, but a 403 refusal stays reachable that is decided by a scope-containment mechanism other than the Contains loop (not expressed by this valuation)", why)
			return
		}
		c.Check(seen[av] && len(rej) == 0, key, v, admit, "%s: admitting return reachable=%v, rejections still reachable %v (expected none)", why, seen[av], rej)
	}
	// tokenInfo / err variables of the verifier call
	var tokVar, errVar types.Object
	verifierParam := v.ParamOfNamed(pA, "TokenVerifier")
	optsParam := v.ParamOfNamed(pA, "RequireBearerTokenOptions")
	fieldsVar := v.VarFromCall(c.Std("strings", "", "Fields"), 0)
	c.Need(verifierParam != nil && optsParam != nil, "verify: verifier and options parameters")
	var verifierV = -1
	for _, w := range Writes(v.Body, false) {
		if as, ok := w.Stmt.(*ast.AssignStmt); ok && len(as.Lhs) == 2 && len(as.Rhs) == 1 {
			if ce, ok := ast.Unparen(as.Rhs[0]).(*ast.CallExpr); ok && v.ObjOf(ce.Fun) == types.Object(verifierParam) {
				tokVar, errVar = v.ObjOf(as.Lhs[0]), v.ObjOf(as.Lhs[1])
				verifierV = g.VertexOf(as)
			}
		}
	}
	c.Need(tokVar != nil && errVar != nil, "verify: tokenInfo, err := verifier(...)")
	errM := func(isNil tri) leafMatcher {
		return func(f *Func, e ast.Expr) (tri, bool) {
			if x, twn, ok := NilTest(e); ok && f.ObjOf(x) == errVar {
				if twn {
					return isNil, true
				}
				return triNot(isNil), true
			}
			return 0, false
		}
	}
	tokM := func(isNil tri) leafMatcher {
		return func(f *Func, e ast.Expr) (tri, bool) {
			if x, twn, ok := NilTest(e); ok && f.ObjOf(x) == tokVar {
				if twn {
					return isNil, true
				}
				return triNot(isNil), true
			}
			return 0, false
		}
	}
	isErr := func(name string, val tri) leafMatcher {
		return func(f *Func, e ast.Expr) (tri, bool) {
			ce, ok := e.(*ast.CallExpr)
			if ok && f.Callee(ce) != nil && f.Callee(ce).FullName() == "errors.Is" && len(ce.Args) == 2 && exprStr(ce.Args[1]) == name {
				return val, true
			}
			return 0, false
		}
	}

	c.Rule("R-C14-1", "admission implies every check: with any single check failing, the admitting return is unreachable and only the cause's status is returned (reject table of R-C14-2 included)", func() {
		// credential syntax: the header is split on white space and must consist of exactly two fields; any other
		// parse (first space only, prefix match) admits or rejects different header shapes
		c.Must(fieldsVar != nil, "verify:credential-syntax", v, nil, "verify: the Authorization header is split with strings.Fields (exactly two fields: scheme and token); another parse changes which header shapes count as a syntactically valid Bearer credential")
		hdrOK := []leafMatcher{lenCmpObj(fieldsVar, token.NEQ, triFalse), cmpIs("ToLower", token.NEQ, triFalse)}
		scenario("verify:malformed-authorization", anyOf(lenCmpObj(fieldsVar, token.NEQ, triTrue))(v), []int64{401}, "Authorization does not have exactly two fields")
		scenario("verify:scheme-not-bearer", anyOf(lenCmpObj(fieldsVar, token.NEQ, triFalse), cmpIs("ToLower", token.NEQ, triTrue))(v), []int64{401}, "scheme is not Bearer")
		scenario("verify:invalid-token", anyOf(append(hdrOK, errM(triFalse), isErr("ErrInvalidToken", triTrue))...)(v), []int64{401}, "verifier says ErrInvalidToken")
		scenario("verify:oauth-error", anyOf(append(hdrOK, errM(triFalse), isErr("ErrInvalidToken", triFalse), isErr("ErrOAuth", triTrue))...)(v), []int64{400}, "verifier says ErrOAuth")
		scenario("verify:other-verifier-error", anyOf(append(hdrOK, errM(triFalse), isErr("ErrInvalidToken", triFalse), isErr("ErrOAuth", triFalse))...)(v), []int64{500}, "verifier fails otherwise")
		// (a nil error matches no sentinel)
		scenario("verify:nil-token-info", anyOf(append(hdrOK, errM(triTrue), tokM(triTrue), isErr("ErrInvalidToken", triFalse), isErr("ErrOAuth", triFalse))...)(v), []int64{500}, "verifier returned nil info without error")
		okBase := append(hdrOK, errM(triTrue), tokM(triFalse), callIs("Contains", "", triTrue))
		scenario("verify:missing-expiration-not-allowed", anyOf(append(okBase, callIs("IsZero", "", triTrue), fieldIs("AllowMissingExpiration", triFalse))...)(v), []int64{401}, "no expiration and AllowMissingExpiration is false")
		scenario("verify:expired-beyond-skew", anyOf(append(okBase, callIs("IsZero", "", triFalse), callIs("Before", "", triTrue))...)(v), []int64{401}, "expiration + skew is before now (for every value of AllowMissingExpiration)")
		// if-direction: when everything checks out the request is admitted, whatever the options pointer is
		admits("verify:admits-valid-unexpired", anyOf(append(okBase, callIs("IsZero", "", triFalse), callIs("Before", "", triFalse))...)(v), "well-formed Bearer credential, verifier accepts, scopes contained, expiration + skew not before now")
		admits("verify:admits-missing-expiration-when-allowed", anyOf(append(okBase, callIs("IsZero", "", triTrue), fieldIs("AllowMissingExpiration", triTrue), nilObj(optsParam, triFalse))...)(v), "as above without an expiration, options given with AllowMissingExpiration set")
		// the expiry comparison has the documented normal form
		now := c.Std("time", "", "Now")
		okForm := false
		for _, call := range v.AllCalls(v.Body, false) {
			if fn := v.Callee(call); fn != nil && fn.FullName() == "(time.Time).Before" && len(call.Args) == 1 {
				if nc, ok := ast.Unparen(call.Args[0]).(*ast.CallExpr); ok && v.IsCallTo(nc, now) {
					// (a local that holds the sum, computed once, is the sum)
					recv := v.valueOf(ast.Unparen(call.Fun).(*ast.SelectorExpr).X)
					if add, ok := ast.Unparen(recv).(*ast.CallExpr); ok && v.Callee(add) != nil && v.Callee(add).Name() == "Add" && len(add.Args) == 1 {
						s, isS := ast.Unparen(add.Args[0]).(*ast.SelectorExpr)
						if id, isID := ast.Unparen(add.Args[0]).(*ast.Ident); isID && !isS {
							// a local that is zero unless it was given the option's value
							if lv, isV := v.ObjOf(id).(*types.Var); isV && !lv.IsField() && !v.addressTaken(lv) {
								nSel, nOther := 0, 0
								for _, w := range Writes(v.Body, true) {
									if v.ObjOf(w.LHS) != types.Object(lv) {
										continue
									}
									if w.RHS == nil && w.Tok == token.DEFINE {
										continue // var skew time.Duration
									}
									if z, isZ := v.ConstInt(w.RHS); w.RHS != nil && isZ && z == 0 {
										continue
									}
									if ws, ok := ast.Unparen(w.RHS).(*ast.SelectorExpr); w.RHS != nil && ok && ws.Sel.Name == "ClockSkew" {
										s, isS = ws, true
										nSel++
										continue
									}
									nOther++
								}
								if nOther > 0 || nSel != 1 {
									isS = false
								}
							}
						}
						base, isB := ast.Unparen(add.Fun).(*ast.SelectorExpr)
						if isS && s.Sel.Name == "ClockSkew" && v.ObjOf(s.X) == types.Object(optsParam) && isB && func() bool { nm, on := v.SelectorOn(base.X, tokVar); return on && nm == "Expiration" }() {
							okForm = true
						}
					}
				}
			}
		}
		c.Check(okForm, "verify:expiry-normal-form", v, nil, "the expiry test is tokenInfo.Expiration.Add(opts.ClockSkew).Before(time.Now())")
		// "lacks an expiration" is asked of the verifier's Expiration itself: a time derived from it (skew added, converted,
		// truncated) is zero for other tokens than the ones that carry no expiration
		for i, call := range v.AllCalls(v.Body, false) {
			fn := v.Callee(call)
			if fn == nil || fn.FullName() != "(time.Time).IsZero" || !g.isCondition(call) {
				continue
			}
			recv := ast.Unparen(v.valueOf(ast.Unparen(call.Fun).(*ast.SelectorExpr).X))
			okRecv := false
			if sel, isSel := recv.(*ast.SelectorExpr); isSel {
				if fv, isF := v.ObjOf(sel.Sel).(*types.Var); isF && fv.IsField() && fv.Name() == "Expiration" && v.ObjOf(v.valueOf(sel.X)) == tokVar {
					okRecv = true
				}
			}
			if _, isCall := recv.(*ast.CallExpr); isCall || okRecv {
				c.Check(okRecv, "verify:missing-expiration-asked-of-the-token#"+itoa(i), v, call, "the test for a missing expiration reads tokenInfo.Expiration itself (got %s): after adding the skew or any other arithmetic a missing expiration is no longer the zero time", exprStr(recv))
			}
		}
		// scope containment: a loop over opts.Scopes on every path from the verifier to admission when opts != nil
		okScope := false
		inspectNoLit(v.Body, func(n ast.Node) {
			rs, ok := n.(*ast.RangeStmt)
			if !ok {
				return
			}
			// (a local that is nil unless it was given opts.Scopes is the same loop: over nothing when there are no options)
			s, isS := ast.Unparen(v.valueOf(rs.X)).(*ast.SelectorExpr)
			if !isS || s.Sel.Name != "Scopes" || v.ObjOf(s.X) != types.Object(optsParam) {
				return
			}
			// body: if !Contains(tokenInfo.Scopes, s) { return 403 }
			for _, st := range rs.Body.List {
				ifs, isIf := st.(*ast.IfStmt)
				if !isIf {
					continue
				}
				// (one of the alternatives of the condition: `x == nil || !Contains(…)` refuses at least as often)
				var ce *ast.CallExpr
				for _, leaf := range orOperands(ifs.Cond) {
					in, neg := stripNot(leaf)
					if cc, isC := in.(*ast.CallExpr); neg && isC && v.Callee(cc) != nil && v.Callee(cc).Name() == "Contains" && len(cc.Args) == 2 {
						ce = cc
					}
				}
				if ce == nil {
					continue
				}
				a0, isSel := ast.Unparen(ce.Args[0]).(*ast.SelectorExpr)
				if !isSel || a0.Sel.Name != "Scopes" || v.ObjOf(a0.X) != tokVar || v.ObjOf(ce.Args[1]) != v.ObjOf(rs.Value) {
					continue
				}
				for _, b := range ifs.Body.List {
					if r, isR := b.(*ast.ReturnStmt); isR && codeOf(r) == 403 {
						// the loop is on every path to admission on which opts != nil
						rv := g.VertexOf(rs.X)
						seen := g.ReachUnder(anyOf(nilObj(optsParam, triFalse))(v), func(u int) bool { return u == rv })
						okScope = !seen[av] && g.ReachableFrom(verifierV)[rv]
					}
				}
			}
		})
		// a tally of matches kept while walking the *granted* scopes counts a scope that is granted twice twice (the list is
		// whatever the verifier returned): it may only decide when every match also removes the matched scope from the set of
		// those still looked for
		inspectNoLit(v.Body, func(n ast.Node) {
			rs, ok := n.(*ast.RangeStmt)
			if !ok {
				return
			}
			sel, isSel := ast.Unparen(v.valueOf(rs.X)).(*ast.SelectorExpr)
			if !isSel || sel.Sel.Name != "Scopes" || v.ObjOf(v.valueOf(sel.X)) != tokVar {
				return
			}
			for _, w := range Writes(rs.Body, false) {
				step := false
				switch st := w.Stmt.(type) {
				case *ast.IncDecStmt:
					step = true
				case *ast.AssignStmt:
					step = st.Tok == token.ADD_ASSIGN || st.Tok == token.SUB_ASSIGN
				}
				o, _ := v.ObjOf(w.LHS).(*types.Var)
				if !step || o == nil || o.IsField() {
					continue
				}
				decides := false
				for _, cv := range g.condVertices() {
					ast.Inspect(g.Node(cv-1), func(x ast.Node) bool {
						if id, isID := x.(*ast.Ident); isID && v.ObjOf(id) == types.Object(o) {
							decides = true
						}
						return !decides
					})
				}
				if !decides {
					continue
				}
				wv := g.VertexOf(w.Stmt)
				removed := false
				for _, call := range v.AllCalls(rs.Body, false) {
					if v.BuiltinName(call) == "delete" && len(call.Args) == 2 && rs.Value != nil && v.ObjOf(call.Args[1]) == v.ObjOf(rs.Value) {
						if dv := g.VertexOf(call); g.Dominates(dv, wv) || g.Dominates(wv, dv) {
							removed = true
						}
					}
				}
				c.Check(removed, "verify:scope-tally-counts-each-scope-once", v, w.Stmt, "a count of matching scopes kept over the granted list decides about 403: each match removes the scope from the set still looked for (otherwise a scope granted twice pays for a required one that is missing)")
			}
		})
		altScope := false
		for _, r := range v.Returns() {
			if altScope403(r) {
				altScope = true
			}
		}
		if !okScope && altScope {
			c.Undecided("verify:every-required-scope-checked", v, nil, "scope containment is (also) decided by a mechanism other than the loop over the required scopes that asks Contains of the granted ones: whether it refuses exactly when a required scope is missing is not decided here")
		} else {
			c.Check(okScope, "verify:every-required-scope-checked", v, nil, "when options are given, every path from the verifier to admission runs the loop that returns 403 at the first required scope not granted")
		}
		// the admitted value is the verifier's
		c.Check(v.ObjOf(admit.Results[0]) == tokVar && len(v.writesToVar(v.Body, tokVar, true)) == 1, "verify:admits-verifier-value", v, admit, "the TokenInfo handed on is exactly the verifier's result")
		// … and unmodified: nothing is written through the verifier's pointer or through a copy of that pointer
		aliases := map[types.Object]bool{tokVar: true}
		for changed := true; changed; {
			changed = false
			for _, w := range Writes(v.Body, true) {
				if o := v.ObjOf(w.LHS); o != nil && w.RHS != nil && aliases[v.ObjOf(w.RHS)] && !aliases[o] {
					aliases[o] = true
					changed = true
				}
			}
		}
		okRO := true
		for _, w := range Writes(v.Body, true) {
			x := ast.Unparen(w.LHS)
			depth := 0
			for {
				if sel, ok := x.(*ast.SelectorExpr); ok {
					x = ast.Unparen(sel.X)
					depth++
					continue
				}
				if st, ok := x.(*ast.StarExpr); ok {
					x = ast.Unparen(st.X)
					depth++
					continue
				}
				break
			}
			if depth > 0 && aliases[v.ObjOf(x)] {
				okRO = false
				c.Fail("verify:verifier-value-modified", v, w.Stmt, "the TokenInfo returned by the verifier is written to (%s): the handler no longer sees exactly the verifier's value, and a verifier that caches its results sees the change on the next request", exprStr(w.LHS))
			}
		}
		if okRO {
			c.Ok("verify:verifier-value-not-modified", v, nil, "no assignment goes through the verifier's *TokenInfo or a copy of that pointer (%d aliases)", len(aliases))
		}
		// the token passed to the verifier is the second field
		okTok := false
		for _, call := range v.AllCalls(v.Body, false) {
			if v.ObjOf(call.Fun) == types.Object(verifierParam) && len(call.Args) == 3 {
				if ix, ok := ast.Unparen(v.valueOf(call.Args[1])).(*ast.IndexExpr); ok {
					if k, isC := v.ConstInt(ix.Index); isC && k == 1 && v.ObjOf(ix.X) == fieldsVar {
						okTok = true
					}
				}
			}
		}
		c.Check(okTok, "verify:token-is-second-field", v, nil, "the credential given to the verifier is fields[1]")
	})

	c.Rule("R-C14-3", "the middleware runs the handler only on admission, with the verifier's token info in the context, and challenges 401/403 with the configured metadata URL and scopes using per-request state only", func() {
		rb := c.Fn("auth", "", "RequireBearerToken")
		var hl *Func
		for _, l := range rb.AllLits() {
			ps := l.Params()
			if len(ps) == 2 && isHTTPResponseWriter(ps[0].Type()) {
				hl = l
			}
		}
		// ... or the ServeHTTP method of a handler type that RequireBearerToken instantiates (the closure's captured
		// variables are then fields set once, in that literal)
		var hlit *ast.CompositeLit
		if hl == nil {
			ast.Inspect(rb.Body, func(x ast.Node) bool {
				cl, ok := x.(*ast.CompositeLit)
				if !ok || hl != nil {
					return true
				}
				if nt := namedOf(rb.TypeOf(cl)); nt != nil && nt.Obj().Pkg() == rb.Pkg.Types {
					if m := c.P.FuncOf(c.P.LookupFuncObj(pA, nt.Obj().Name(), "ServeHTTP")); m != nil {
						hl, hlit = m, cl
					}
				}
				return true
			})
		}
		c.Need(hl != nil, "RequireBearerToken: per-request handler literal")
		// isParam: e denotes RequireBearerToken's parameter p in the handler — the captured variable itself, or a field of
		// the handler's receiver that the instantiating literal sets to p and nothing else ever writes
		isParam := func(e ast.Expr, p *types.Var) bool {
			if p == nil {
				return false
			}
			if hl.ObjOf(e) == types.Object(p) {
				return true
			}
			e = hl.valueOf(e) // a local copy (opts := h.opts)
			sel, ok := ast.Unparen(e).(*ast.SelectorExpr)
			if !ok || hlit == nil || hl.Recv() == nil || hl.ObjOf(sel.X) != types.Object(hl.Recv()) {
				return false
			}
			fld, _ := hl.ObjOf(sel.Sel).(*types.Var)
			if fld == nil {
				return false
			}
			set := false
			for _, el := range hlit.Elts {
				if kv, isKV := el.(*ast.KeyValueExpr); isKV && rb.ObjOf(kv.Key) == types.Object(fld) && rb.ObjOf(kv.Value) == types.Object(p) {
					set = true
				}
			}
			if !set {
				return false
			}
			for _, f := range c.funcsWithLits(pA) {
				if len(f.FieldWrites(f.Body, fld, false)) > 0 {
					return false
				}
			}
			return true
		}
		c.touch(hl)
		hg := hl.Graph()
		verifyObj := c.FnObj("auth", "", "verify")
		var tok, code types.Object
		for _, w := range Writes(hl.Body, false) {
			if as, ok := w.Stmt.(*ast.AssignStmt); ok && len(as.Lhs) == 3 && len(as.Rhs) == 1 {
				if ce, ok := ast.Unparen(as.Rhs[0]).(*ast.CallExpr); ok && hl.IsCallTo(ce, verifyObj) {
					tok, code = hl.ObjOf(as.Lhs[0]), hl.ObjOf(as.Lhs[2])
				}
			}
		}
		c.Need(tok != nil && code != nil, "handler: tokenInfo, errmsg, code := verify(...)")
		// every request is put to the caller's verifier: verify receives RequireBearerToken's own parameter, which is never
		// replaced (a memoising or otherwise wrapping verifier answers for the real one — a revoked token stays admitted)
		vp := rb.ParamWhere(func(t types.Type) bool { return isNamedType(t, modPath+"/auth", "TokenVerifier") })
		c.Need(vp != nil, "RequireBearerToken: TokenVerifier parameter")
		okArg := false
		for _, call := range hl.CallsIn(hl.Body, verifyObj, false) {
			if len(call.Args) == 3 && isParam(call.Args[1], vp) {
				okArg = true
			}
		}
		nW := len(rb.writesToVar(rb.Body, vp, true))
		c.Check(okArg && nW == 0, "middleware:asks-the-callers-verifier", rb, nil, "verify is called with the verifier parameter of RequireBearerToken, and that parameter is never reassigned (%d writes)", nW)
		n := 0
		for v2 := 0; v2 < hg.N; v2++ {
			nd := hg.Node(v2)
			if nd == nil {
				continue
			}
			for _, call := range hl.AllCalls(nd, false) {
				if fn := hl.Callee(call); fn != nil && fn.Name() == "ServeHTTP" {
					n++
					guards := hg.GuardsAt(v2)
					c.Check(hasAtom(guards, func(a Atom) bool {
						x, y, op, ok := binaryCmp(a.E)
						z, isZ := hl.ConstInt(y)
						return ok && hl.ObjOf(x) == code && isZ && z == 0 && ((op == token.NEQ && !a.Val) || (op == token.EQL && a.Val))
					}), "middleware:handler-only-on-admission", hl, call, "the wrapped handler runs only when verify returned code 0 (guards: %s)", atomsString(guards))
				}
			}
		}
		c.Pin("handler.ServeHTTP sites", n, 1)
		wv := c.Std("context", "", "WithValue")
		okCtx := false
		for _, call := range hl.CallsIn(hl.Body, wv, false) {
			if len(call.Args) == 3 && hl.ObjOf(call.Args[2]) == tok && namedOf(hl.TypeOf(call.Args[1])) == c.P.LookupType("auth", "tokenInfoKey") {
				okCtx = true
			}
		}
		c.Check(okCtx, "middleware:context-carries-verifier-value", hl, nil, "the request context carries verify's TokenInfo under tokenInfoKey{}")
		// ... and the accessor hands it out as stored: it tests nothing but presence (a second look at the expiration, without
		// the middleware's clock skew, hides from the handler a token the middleware just admitted)
		tic := c.Fn("auth", "", "TokenInfoFromContext")
		tg := tic.Graph()
		nCond := 0
		for _, cv := range tg.condVertices() {
			cond := tg.Node(cv - 1).(ast.Expr)
			if _, _, isNil := NilTest(cond); isNil {
				continue
			}
			if id, isID := ast.Unparen(cond).(*ast.Ident); isID {
				if b, isB := tic.TypeOf(id).Underlying().(*types.Basic); isB && b.Info()&types.IsBoolean != 0 {
					continue // the comma-ok of the type assertion
				}
			}
			if inner, neg := stripNot(cond); neg {
				if _, isID := ast.Unparen(inner).(*ast.Ident); isID {
					continue
				}
			}
			nCond++
		}
		c.Check(nCond == 0, "TokenInfoFromContext:hands-out-what-was-stored", tic, nil, "TokenInfoFromContext decides by presence only (%d other tests)", nCond)
		// challenge
		nChal := 0
		for _, call := range hl.AllCalls(hl.Body, false) {
			if fn := hl.Callee(call); fn != nil && fn.Name() == "Add" && len(call.Args) == 2 {
				if s, ok := hl.ConstString(call.Args[0]); ok && s == "WWW-Authenticate" {
					nChal++
					// the value is "Bearer " + the joined parameter list, and it is added before the status line is written
					okVal := false
					if b, isB := ast.Unparen(hl.valueOf(call.Args[1])).(*ast.BinaryExpr); isB && b.Op == token.ADD {
						if pre, isC := hl.ConstString(b.X); isC && pre == "Bearer " {
							if jc, isCall := ast.Unparen(b.Y).(*ast.CallExpr); isCall && hl.Callee(jc) != nil && hl.Callee(jc).FullName() == "strings.Join" {
								okVal = true
							}
						}
					}
					herr0 := c.Std("net/http", "", "Error")
					before := true
					for _, ev := range hg.callVertices(herr0) {
						if hg.ReachableFrom(ev)[hg.VertexOf(call)] {
							before = false
						}
					}
					c.Check(okVal && before, "middleware:challenge-value", hl, call, "the header value is \"Bearer \" followed by the joined parameters, set before http.Error writes the status")
					// and it depends on nothing but: a 401/403, options given, at least one parameter
					extra := ""
					for _, a := range hg.GuardsAt(hg.VertexOf(call)) {
						switch {
						case isCompound(a.E):
						case AtomSaysNil(a, false, func(e ast.Expr) bool { return hl.ObjOf(e) != nil }): // opts != nil
						default:
							if x, y, op, isCmp := binaryCmp(a.E); isCmp {
								if _, isC := hl.ConstInt(y); isC && (op == token.NEQ || op == token.EQL || op == token.GTR) {
									_ = x
									continue
								}
							}
							extra = a.String()
						}
					}
					c.Check(extra == "", "middleware:challenge-not-narrowed", hl, call, "no further condition stands between a 401/403 with parameters and the challenge header (%s)", extra)
					guards := hg.GuardsAt(hg.VertexOf(call))
					okSt := hasAtom(guards, func(a Atom) bool {
						if !a.Val {
							return false
						}
						b, isB := a.E.(*ast.BinaryExpr)
						if !isB || b.Op != token.LOR {
							return false
						}
						_, y1, _, ok1 := binaryCmp(b.X)
						_, y2, _, ok2 := binaryCmp(b.Y)
						a1, _ := hl.ConstInt(y1)
						a2, _ := hl.ConstInt(y2)
						return ok1 && ok2 && ((a1 == 401 && a2 == 403) || (a1 == 403 && a2 == 401))
					})
					c.Check(okSt, "middleware:challenge-only-for-401-403", hl, call, "WWW-Authenticate is added only for 401 and 403 (guards: %s)", atomsString(guards))
				}
			}
		}
		c.Pin("WWW-Authenticate header sites", nChal, 1)
		src := map[string]bool{}
		ast.Inspect(hl.Body, func(x ast.Node) bool {
			if ce, ok := x.(*ast.CallExpr); ok && hl.Callee(ce) != nil && hl.Callee(ce).FullName() == "fmt.Sprintf" && len(ce.Args) == 2 {
				if f, ok := hl.ConstString(ce.Args[0]); ok {
					if sel, isSel := ast.Unparen(ce.Args[1]).(*ast.SelectorExpr); f == "resource_metadata=%q" && isSel && hl.ObjOf(sel.Sel) == types.Object(c.Field(pA, "RequireBearerTokenOptions", "ResourceMetadataURL")) && isParam(sel.X, rb.ParamOfNamed(pA, "RequireBearerTokenOptions")) {
						src["resource_metadata"] = true
					}
					if f == "scope=%q" {
						src["scope"] = true
					}
				}
			}
			return true
		})
		// the same two parameters written with strconv.Quote or plain concatenation: an expression that mentions the
		// literal "resource_metadata=" / "scope=" together with the corresponding option field
		ast.Inspect(hl.Body, func(x ast.Node) bool {
			e, ok := x.(ast.Expr)
			if !ok {
				return true
			}
			be, isB := e.(*ast.BinaryExpr)
			if !isB || be.Op != token.ADD {
				return true
			}
			lit := ""
			ast.Inspect(be, func(y ast.Node) bool {
				if ye, isE := y.(ast.Expr); isE {
					if sv, isS := hl.ConstString(ye); isS && (strings.HasPrefix(sv, "resource_metadata=") || strings.HasPrefix(sv, "scope=")) {
						lit = sv
					}
				}
				return true
			})
			if lit == "" {
				return true
			}
			ast.Inspect(be, func(y ast.Node) bool {
				if sel, isSel := y.(*ast.SelectorExpr); isSel {
					if fv, isF := hl.ObjOf(sel.Sel).(*types.Var); isF && fv.IsField() && isParam(sel.X, rb.ParamOfNamed(pA, "RequireBearerTokenOptions")) {
						if strings.HasPrefix(lit, "resource_metadata=") && fv.Name() == "ResourceMetadataURL" {
							src["resource_metadata"] = true
						}
						if strings.HasPrefix(lit, "scope=") && fv.Name() == "Scopes" {
							src["scope"] = true
						}
					}
				}
				return true
			})
			return true
		})
		c.Check(src["resource_metadata"] && src["scope"], "middleware:challenge-parameters", hl, nil, "the challenge carries resource_metadata (from opts.ResourceMetadataURL) and scope (from opts.Scopes)")
		// the options verify sees are the caller's: the constructor hands its opts parameter on unchanged, or as a copy that
		// names every field of the options struct (a partial copy silently resets the omitted option, e.g. AllowMissingExpiration)
		optsP := rb.ParamOfNamed(pA, "RequireBearerTokenOptions")
		c.Need(optsP != nil, "RequireBearerToken: options parameter")
		optT := c.P.LookupType(pA, "RequireBearerTokenOptions")
		optS := optT.Underlying().(*types.Struct)
		okPass := false
		for _, call := range hl.CallsIn(hl.Body, c.FnObj(pA, "", "verify"), false) {
			okPass = len(call.Args) == 3 && isParam(call.Args[2], optsP)
		}
		completeCopy := func(f *Func) (bool, string) {
			found, ok, miss := false, true, ""
			ast.Inspect(f.Body, func(n ast.Node) bool {
				cl, isLit := n.(*ast.CompositeLit)
				if !isLit || namedOf(f.TypeOf(cl)) != optT {
					return true
				}
				found = true
				keys := map[string]bool{}
				for _, e := range cl.Elts {
					if kv, isKV := e.(*ast.KeyValueExpr); isKV {
						keys[exprStr(kv.Key)] = true
					}
				}
				for i := 0; i < optS.NumFields(); i++ {
					if fld := optS.Field(i); fld.Exported() && !keys[fld.Name()] && len(cl.Elts) > 0 {
						ok = false
						miss += " " + fld.Name()
					}
				}
				return true
			})
			return found && ok, miss
		}
		for _, w := range rb.writesToVar(rb.Body, optsP, true) {
			as, isAs := w.(*ast.AssignStmt)
			good := false
			why := "reassigned from " + exprStr(as.Rhs[0])
			if isAs && len(as.Rhs) == 1 {
				if ce, isCall := ast.Unparen(as.Rhs[0]).(*ast.CallExpr); isCall {
					if fn := rb.Callee(ce); fn != nil {
						if g := c.P.FuncOf(fn); g != nil {
							okc, miss := completeCopy(g)
							good = okc
							if miss != "" {
								why = fn.Name() + " omits:" + miss
							}
						}
					}
				}
			}
			c.Check(good, "middleware:options-replaced", rb, w, "the options parameter is replaced only by a copy that names every exported field (%s)", why)
		}
		c.Check(okPass, "middleware:options-reach-verify", hl, nil, "verify is called with the constructor's own options value")
		// per-request state: the handler literal assigns no variable declared outside itself
		bad := ""
		for _, w := range Writes(hl.Body, true) {
			id, ok := ast.Unparen(w.LHS).(*ast.Ident)
			if !ok || id.Name == "_" {
				continue
			}
			o, _ := hl.ObjOf(id).(*types.Var)
			if o == nil || o.IsField() {
				continue
			}
			lo, hi := token.NoPos, token.NoPos
			if hl.Lit != nil {
				lo, hi = hl.Lit.Pos(), hl.Lit.Body.Rbrace
			} else if hl.Decl != nil {
				lo, hi = hl.Decl.Pos(), hl.Decl.End()
			}
			if !(lo <= o.Pos() && o.Pos() <= hi) {
				bad = o.Name() + " at " + hl.At(w.Stmt)
			}
		}
		if hl.Recv() != nil {
			// the handler is a method: its receiver is shared by all requests, so it writes none of its fields either
			for _, w := range Writes(hl.Body, true) {
				e := ast.Unparen(w.LHS)
				for {
					switch x := e.(type) {
					case *ast.SelectorExpr:
						e = ast.Unparen(x.X)
						continue
					case *ast.IndexExpr:
						e = ast.Unparen(x.X)
						continue
					case *ast.StarExpr:
						e = ast.Unparen(x.X)
						continue
					}
					break
				}
				if e != ast.Unparen(w.LHS) && hl.ObjOf(e) == types.Object(hl.Recv()) {
					bad = exprStr(w.LHS) + " at " + hl.At(w.Stmt)
				}
			}
		}
		c.Check(bad == "", "middleware:no-shared-mutable-state", hl, nil, "the per-request closure writes only variables it declares itself (a captured slice or counter would leak state, and race, across requests) %s", bad)
		// after a rejection nothing else runs
		herr := c.Std("net/http", "", "Error")
		for _, ev := range hg.callVertices(herr) {
			seen, _ := hg.reach(hg.succ[ev], nil, nil)
			reach := false
			for v2 := 0; v2 < hg.N; v2++ {
				if seen[v2] && hg.Node(v2) != nil {
					for _, call := range hl.AllCalls(hg.Node(v2), false) {
						if fn := hl.Callee(call); fn != nil && fn.Name() == "ServeHTTP" {
							reach = true
						}
					}
				}
			}
			c.Check(!reach, "middleware:reject-then-return", hl, hg.Node(ev), "after writing the rejection the handler is not invoked")
		}
	})
	ruleNoSilent200(c, "R-C14-4", []string{"auth"}, nil, 2, 4)
	ruleHeadersBeforeStatus(c, "R-C14-5", []string{"auth"}, 2)
}

// c13directIn: call lies in the node n of f's graph itself, not inside a function literal.
func c13directIn(f *Func, n ast.Node, call *ast.CallExpr) bool {
	for _, cc := range f.AllCalls(n, false) {
		if cc == call {
			return true
		}
	}
	return false
}

// c13pingLit: call lies in a literal that the node n invokes on the spot (`err := func() error { … }()`), and what that
// invocation yields is the result of call: every return of the literal hands back the call's value. Returns the literal.
func c13pingLit(f *Func, n ast.Node, call *ast.CallExpr) *Func {
	for _, l := range f.Lits() {
		if !encloses(n, l.Lit) || !encloses(l.Body, call) || !c13directIn(l, l.Body, call) {
			continue
		}
		inv, isCall := f.ParentOf(l.Lit).(*ast.CallExpr)
		if !isCall {
			if pe, isP := f.ParentOf(l.Lit).(*ast.ParenExpr); isP {
				inv, isCall = f.ParentOf(pe).(*ast.CallExpr)
			}
		}
		if !isCall || ast.Unparen(inv.Fun) != ast.Expr(l.Lit) {
			continue
		}
		if _, isGo := f.ParentOf(inv).(*ast.GoStmt); isGo {
			continue
		}
		if _, isDefer := f.ParentOf(inv).(*ast.DeferStmt); isDefer {
			continue
		}
		ok := len(l.Returns()) > 0
		for _, r := range l.Returns() {
			if len(r.Results) != 1 || ast.Unparen(l.valueOf(r.Results[0])) != ast.Expr(call) {
				ok = false
			}
		}
		if ok {
			return l
		}
	}
	return nil
}

// c13fraction: e, read in f, as a constant fraction num/den of the variable base; locals that are written once stand for
// their definition.
func c13fraction(f *Func, e ast.Expr, base *types.Var, depth int) (num, den int64, ok bool) {
	if depth > 6 {
		return 0, 0, false
	}
	e = ast.Unparen(e)
	switch x := e.(type) {
	case *ast.Ident:
		if f.ObjOf(x) == types.Object(base) {
			return 1, 1, true
		}
		if nx := f.valueOf(x); nx != ast.Expr(x) {
			return c13fraction(f, nx, base, depth+1)
		}
	case *ast.BinaryExpr:
		if x.Op == token.QUO {
			if k, isC := f.ConstInt(x.Y); isC && k >= 1 {
				if n, d, okX := c13fraction(f, x.X, base, depth+1); okX {
					return n, d * k, true
				}
			}
		}
		if x.Op == token.MUL {
			for _, pr := range [][2]ast.Expr{{x.X, x.Y}, {x.Y, x.X}} {
				if k, isC := f.ConstInt(pr[1]); isC && k >= 1 {
					if n, d, okX := c13fraction(f, pr[0], base, depth+1); okX {
						return n * k, d, true
					}
				}
			}
		}
	}
	return 0, 0, false
}

// c13view is the graph of the keep-alive goroutine read with one "verdict" local followed: a local that is only ever given
// constants (its bare declaration counts as the zero constant) and that branch conditions compare with constants — the
// shape a decision takes when the code that decides and the code that acts are separated (classify, then switch on the
// class). Reachability over (vertex, last constant written) prunes the tests of that local whose outcome is known; with no
// such local it is the plain reachability of the graph.
type c13view struct {
	g      *Graph
	t      types.Object
	vals   []int64         // index 0 stands for "unknown"
	write  map[int]int     // vertex that writes t -> index into vals (0: not a constant)
	pruned map[[3]int]bool // (end vertex, value index, successor index) cannot be taken
}

func c13newView(loop *Func, g *Graph) *c13view {
	vw := &c13view{g: g, vals: []int64{0}, write: map[int]int{}, pruned: map[[3]int]bool{}}
	// candidates: locals declared in the goroutine whose every write is a constant
	type cand struct {
		ws    []Write
		vals  []int64
		allOK bool
	}
	cands := map[types.Object]*cand{}
	var order []types.Object
	for _, w := range Writes(loop.Body, true) {
		id, isID := ast.Unparen(w.LHS).(*ast.Ident)
		if !isID || id.Name == "_" {
			continue
		}
		o, _ := loop.ObjOf(id).(*types.Var)
		if o == nil || o.IsField() || !(loop.Body.Pos() <= o.Pos() && o.Pos() <= loop.Body.End()) {
			continue
		}
		cd := cands[o]
		if cd == nil {
			cd = &cand{allOK: true}
			cands[o] = cd
			order = append(order, o)
		}
		cd.ws = append(cd.ws, w)
	}
	idx := func(k int64) int {
		for i := 1; i < len(vw.vals); i++ {
			if vw.vals[i] == k {
				return i
			}
		}
		vw.vals = append(vw.vals, k)
		return len(vw.vals) - 1
	}
	constOf := func(e ast.Expr) (int64, bool) {
		if _, isLit := ast.Unparen(e).(*ast.BasicLit); !isLit {
			if _, isID := ast.Unparen(e).(*ast.Ident); !isID {
				if _, isSel := ast.Unparen(e).(*ast.SelectorExpr); !isSel {
					return 0, false
				}
			}
		}
		return loop.ConstInt(e)
	}
	testOf := func(o types.Object, e ast.Expr) (k int64, eq bool, ok bool) {
		x, y, op, isCmp := binaryCmp(e)
		if !isCmp || (op != token.EQL && op != token.NEQ) {
			return 0, false, false
		}
		if loop.ObjOf(y) == o {
			x, y = y, x
		}
		if loop.ObjOf(x) != o {
			return 0, false, false
		}
		k, isC := constOf(y)
		return k, op == token.EQL, isC
	}
	// the condition of each two-way block, as ReachUnder reads it
	conds := map[int]ast.Expr{}
	for i, b := range g.C.Blocks {
		if !b.Live || len(b.Succs) != 2 || len(b.Nodes) == 0 {
			continue
		}
		cond, ok := b.Nodes[len(b.Nodes)-1].(ast.Expr)
		if !ok {
			continue
		}
		ev := g.off[i] + len(b.Nodes)
		switch b.Succs[0].Kind {
		case cfg.KindIfThen, cfg.KindForBody:
			conds[ev] = cond
		case cfg.KindSwitchCaseBody:
			cc, _ := b.Succs[0].Stmt.(*ast.CaseClause)
			var sw *ast.SwitchStmt
			if cc != nil {
				if blk, ok := loop.ParentOf(cc).(*ast.BlockStmt); ok {
					sw, _ = loop.ParentOf(blk).(*ast.SwitchStmt)
				}
			}
			if sw == nil {
				continue
			}
			if sw.Tag != nil {
				conds[ev] = &ast.BinaryExpr{X: sw.Tag, Op: token.EQL, Y: cond}
			} else {
				conds[ev] = cond
			}
		}
	}
	for _, o := range order {
		cd := cands[o]
		for _, w := range cd.ws {
			if encloses(loop.Body, w.Stmt) && g.VertexOf(w.Stmt) < 0 {
				cd.allOK = false
			}
			if w.RHS == nil {
				if _, isVS := w.Stmt.(*ast.ValueSpec); !isVS {
					cd.allOK = false
				}
				continue
			}
			if _, isC := constOf(w.RHS); !isC {
				cd.allOK = false
			}
		}
		// written inside a nested literal: not followed
		n := 0
		for _, w := range Writes(loop.Body, false) {
			if loop.ObjOf(w.LHS) == o {
				n++
			}
		}
		if !cd.allOK || n != len(cd.ws) || loop.addressTaken(o) {
			continue
		}
		tested := false
		for _, cond := range conds {
			var as []Atom
			splitAtoms(cond, true, &as)
			for _, a := range as {
				if _, _, ok := testOf(o, a.E); ok {
					tested = true
				}
			}
		}
		if !tested {
			continue
		}
		vw.t = o
		for _, w := range cd.ws {
			wv := g.VertexOf(w.Stmt)
			if w.RHS == nil {
				vw.write[wv] = idx(0)
			} else {
				k, _ := constOf(w.RHS)
				vw.write[wv] = idx(k)
			}
		}
		break
	}
	if vw.t == nil {
		return vw
	}
	for ev, cond := range conds {
		for vi := 1; vi < len(vw.vals); vi++ {
			val := vw.vals[vi]
			res := evalTri(cond, func(e ast.Expr) tri {
				if k, eq, ok := testOf(vw.t, e); ok {
					if (k == val) == eq {
						return triTrue
					}
					return triFalse
				}
				return triUnknown
			})
			switch res {
			case triTrue:
				vw.pruned[[3]int{ev, vi, 1}] = true
			case triFalse:
				vw.pruned[[3]int{ev, vi, 0}] = true
			}
		}
	}
	return vw
}

// reach: the vertices reachable from starts (the verdict local unknown there) without entering a blocked vertex or taking a
// blocked edge.
func (vw *c13view) reach(starts []int, blocked func(int) bool, blockedEdge func(u, k int) bool) []bool {
	g := vw.g
	if vw.t == nil {
		seen, _ := g.reach(starts, blocked, blockedEdge)
		return seen
	}
	nv := len(vw.vals)
	seenS := make([]bool, g.N*nv)
	seen := make([]bool, g.N)
	type st struct{ v, vi int }
	var q []st
	for _, s := range starts {
		seenS[s*nv] = true
		seen[s] = true
		q = append(q, st{s, 0})
	}
	for len(q) > 0 {
		u := q[0]
		q = q[1:]
		vi := u.vi
		if w, isW := vw.write[u.v]; isW {
			vi = w
		}
		for k, s := range g.succ[u.v] {
			if vw.pruned[[3]int{u.v, vi, k}] || (blockedEdge != nil && blockedEdge(u.v, k)) {
				continue
			}
			if blocked != nil && blocked(s) {
				continue
			}
			if seenS[s*nv+vi] {
				continue
			}
			seenS[s*nv+vi] = true
			seen[s] = true
			q = append(q, st{s, vi})
		}
	}
	return seen
}

// c13bound: e, read in f, as max(thr+a, b) (hasMax) or thr+a: the value a comparison of the miss counter is made with, in
// terms of the configured threshold. normParam says that the parameter itself has been raised to at least 1 before.
func c13bound(f *Func, e ast.Expr, thr *types.Var, normParam bool, depth int) (a, b int64, hasMax, ok bool) {
	if depth > 6 {
		return
	}
	e = ast.Unparen(e)
	switch x := e.(type) {
	case *ast.Ident:
		if o := f.ObjOf(x); o == types.Object(thr) || (o != nil && f.Root().aliasesOf(o)[types.Object(thr)]) {
			if normParam {
				return 0, 1, true, true
			}
			return 0, 0, false, true
		}
		if nx := f.valueOf(x); nx != ast.Expr(x) {
			return c13bound(f, nx, thr, normParam, depth+1)
		}
	case *ast.BinaryExpr:
		if k, isC := f.ConstInt(x.Y); isC && (x.Op == token.ADD || x.Op == token.SUB) {
			if x.Op == token.SUB {
				k = -k
			}
			if a, b, hasMax, ok = c13bound(f, x.X, thr, normParam, depth+1); ok {
				return a + k, b + k, hasMax, true
			}
		}
		if k, isC := f.ConstInt(x.X); isC && x.Op == token.ADD {
			if a, b, hasMax, ok = c13bound(f, x.Y, thr, normParam, depth+1); ok {
				return a + k, b + k, hasMax, true
			}
		}
	case *ast.CallExpr:
		if f.BuiltinName(x) == "max" && len(x.Args) == 2 {
			for _, pr := range [][2]ast.Expr{{x.Args[0], x.Args[1]}, {x.Args[1], x.Args[0]}} {
				if k, isC := f.ConstInt(pr[1]); isC {
					if a, b, hasMax, ok = c13bound(f, pr[0], thr, normParam, depth+1); ok {
						if !hasMax || k > b {
							b = k
						}
						return a, b, true, true
					}
				}
			}
		}
	}
	return 0, 0, false, false
}

// isCompound: &&, || and ! nodes (their operands are listed as atoms of their own).
func isCompound(e ast.Expr) bool {
	switch x := e.(type) {
	case *ast.BinaryExpr:
		return x.Op == token.LAND || x.Op == token.LOR
	case *ast.UnaryExpr:
		return x.Op == token.NOT
	}
	return false
}

package main

import (
	"go/ast"
	"go/token"
	"go/types"
	"strings"
)

func init() { register("C01", rulesC01, deepC01) }

// inFlightOK classifies a function context as one in which inFlightState may be touched.
// Returns a short reason, or "" when the context is not allowed.
func (c *Ctx) inFlightContext(f *Func) string {
	uif := c.FnObj(pJ, "Connection", "updateInFlight")
	ifs := c.P.LookupType(pJ, "inFlightState")
	if f.Obj != nil {
		if f.Obj == uif {
			return "updateInFlight"
		}
		if r := f.Obj.Type().(*types.Signature).Recv(); r != nil && namedOf(r.Type()) == ifs {
			return "method of inFlightState"
		}
		return ""
	}
	if call := litParentCall(f); call != nil && f.Parent.IsCallTo(call, uif) {
		return "updateInFlight closure"
	}
	return ""
}

func rulesC01(c *Ctx) {
	c.Import("R-C01-16", "a write that failed only because its own context ended (cancelled or past its deadline) does not break the connection for everybody else: the calls of other callers keep completing with their own responses", "C04", "R-C04-6", func(k string) bool { return strings.HasPrefix(k, "write:") })
	ruleErrorDiscipline(c, "R-C01-15", "a request that could not be sent completes with that error: no error of a step of the transports' Write (building the request, headers, the HTTP exchange, encoding) is dropped — a dropped one leaves the call waiting for a response to a request that never left", map[string][]string{
		pM: {"(*streamableClientConn).Write", "(*streamableClientConn).setMCPHeaders", "(*sseClientConn).Write", "(*ioConn).Write", "(*rwc).Write", "(*streamableServerConn).Write", "(*sseServerConn).Write", "(*loggingConn).Write"},
		pJ: {"(*Connection).write", "(*Connection).Call", "(*Connection).Notify"},
	}, map[string]string{
		"(*streamableServerConn).Write:Append":        "a failed append to the event store is collected and reported unless the live delivery succeeded (the message did reach the peer); R-C08-1 pins append-before-delivery",
		"(*streamableServerConn).Write:deliverLocked": "a failed live delivery is collected and reported unless the message was stored for replay (it is then obtainable by resumption, which is C08's guarantee)",
		"(*streamableClientConn).setMCPHeaders:Token": "an invalid_grant failure of the token source is deliberately ignored: the request goes out without a credential and the 401 starts the authorization flow; every other failure is returned (R-C01-15 would be too coarse for this two-way branch)",
	}, true, 10, 24)
	c.Rule("R-C01-1", "in-flight state is read and written only inside updateInFlight, its closures and inFlightState methods called from them", func() {
		ifs := c.P.LookupType(pJ, "inFlightState")
		c.Need(ifs != nil, "type internal/jsonrpc2.inFlightState")
		fields := structFields(ifs)
		closures := 0
		for _, f := range c.funcsWithLits(pJ) {
			c.touch(f)
			ctxKind := c.inFlightContext(f)
			if ctxKind == "updateInFlight closure" {
				closures++
			}
			// field accesses in f's own body
			inspectNoLit(f.Body, func(n ast.Node) {
				sel, ok := n.(*ast.SelectorExpr)
				if !ok {
					return
				}
				for _, fld := range fields {
					if f.IsField(sel, fld) {
						key := f.Name() + ":" + fld.Name()
						if ctxKind != "" {
							c.Ok(key, f, sel, "access to inFlightState.%s in %s", fld.Name(), ctxKind)
						} else if f.heldLocal(sel)["Connection.stateMu"] && len(f.FieldWrites(f.Body, fld, true)) == 0 && pureRead(f, sel) {
							// a snapshot (len, a comparison, a scalar) taken with the state lock held observes a consistent
							// state and changes nothing, so none of updateInFlight's follow-up work is owed
							c.Ok(key, f, sel, "read-only snapshot of inFlightState.%s with stateMu held", fld.Name())
						} else {
							c.Fail(key, f, sel, "inFlightState.%s accessed outside updateInFlight (struct comment: \"accessed only in updateInFlight\"); a racing reader/writer can see or create a half-updated call table", fld.Name())
						}
					}
				}
			})
			// calls of inFlightState methods
			for _, call := range f.AllCalls(f.Body, false) {
				fn := f.Callee(call)
				if fn == nil {
					continue
				}
				if r := fn.Type().(*types.Signature).Recv(); r != nil && namedOf(r.Type()) == ifs {
					key := f.Name() + ":call " + fn.Name()
					c.Check(ctxKind != "", key, f, call, "call of (*inFlightState).%s from %s", fn.Name(), map[bool]string{true: ctxKind, false: "an unlocked context"}[ctxKind != ""])
				}
			}
		}
		c.Pin("updateInFlight closures", closures, 17)
	})

	c.Rule("R-C01-2", "a call is completed only by (*AsyncCall).retire, and retire is reached only where the call's table entry is removed (or was never inserted)", func() {
		ready := c.Field(pJ, "AsyncCall", "ready")
		resp := c.Field(pJ, "AsyncCall", "response")
		retireObj := c.FnObj(pJ, "AsyncCall", "retire")
		retire := c.Fn(pJ, "AsyncCall", "retire")
		outgoing := c.Field(pJ, "inFlightState", "outgoingCalls")
		// (a) writers of ready/response
		for _, f := range c.funcsWithLits(pJ) {
			for _, call := range f.AllCalls(f.Body, false) {
				if f.BuiltinName(call) == "close" && len(call.Args) == 1 && f.IsField(call.Args[0], ready) {
					c.Check(f == retire, f.Name()+":close(ready)", f, call, "close of AsyncCall.ready (only retire may fix a call's outcome)")
				}
			}
			for _, w := range f.FieldWrites(f.Body, resp, false) {
				c.Check(f == retire, f.Name()+":write response", f, w, "store to AsyncCall.response")
			}
		}
		g := retire.Graph()
		stores := g.Vertices(func(n ast.Node) bool { return len(retire.FieldWrites(n, resp, false)) > 0 })
		closes := g.Vertices(func(n ast.Node) bool {
			for _, call := range retire.AllCalls(n, false) {
				if retire.BuiltinName(call) == "close" {
					return true
				}
			}
			return false
		})
		c.Need(len(stores) == 1 && len(closes) == 1, "retire: exactly one response store and one close(ready)")
		c.Check(g.Dominates(stores[0], closes[0]), "retire:store-before-close", retire, g.Node(closes[0]), "the response is stored before ready is closed (a waiter woken by close must see the response)")

		// (b) classify every retire call site
		roles := map[string]int{}
		for _, f := range c.funcsWithLits(pJ) {
			for _, call := range f.CallsIn(f.Body, retireObj, false) {
				key := f.Name() + ":retire"
				kind := c.inFlightContext(f)
				switch {
				case kind == "updateInFlight closure":
					fg := f.Graph()
					v := fg.VertexOf(call)
					// delete(s.outgoingCalls, k) dominating the retire, or range over outgoingCalls followed by = nil
					delDom := false
					for _, dv := range fg.Vertices(func(n ast.Node) bool {
						for _, cc := range f.AllCalls(n, false) {
							if f.BuiltinName(cc) == "delete" && len(cc.Args) == 2 && f.IsField(cc.Args[0], outgoing) {
								return true
							}
						}
						return false
					}) {
						if fg.Dominates(dv, v) {
							delDom = true
						}
					}
					if delDom {
						roles["delete+retire"]++
						c.Ok(key, f, call, "retire is dominated by delete(outgoingCalls, id) in the same locked closure")
						continue
					}
					// ... or the retire stands under a predicate that answers true only after it has removed that very call's entry
					if rsel, isSel := ast.Unparen(call.Fun).(*ast.SelectorExpr); isSel && c.c01GuardRemoves(f, fg.GuardsAt(v), f.ObjOf(rsel.X)) {
						roles["delete+retire"]++
						c.Ok(key, f, call, "retire is guarded by a predicate of the state that is true only after delete(outgoingCalls, id of this call), in the same locked closure")
						continue
					}
					if rs, ok := f.Enclosing(call, func(n ast.Node) bool { _, ok := n.(*ast.RangeStmt); return ok }).(*ast.RangeStmt); ok && f.IsField(rs.X, outgoing) {
						// after the loop every path to exit clears the map
						rv := fg.VertexOf(rs.X)
						okc, path := fg.PostDominatedBy(rv, func(u int) bool {
							n := fg.Node(u)
							if n == nil {
								return false
							}
							for _, w := range Writes(n, false) {
								if f.IsField(w.LHS, outgoing) && w.RHS != nil && isNilIdent(w.RHS) {
									return true
								}
							}
							return false
						})
						roles["drain"]++
						if okc {
							c.Ok(key, f, call, "retire of every entry in a range over outgoingCalls, followed on all paths by outgoingCalls = nil")
						} else {
							c.Fail(key, f, call, "range over outgoingCalls retires entries but a path leaves the closure without clearing the table (%s): a later drain/Retire would complete them twice (panic)", fg.PathString(path))
						}
						continue
					}
					c.Fail(key, f, call, "retire inside a locked closure that does not remove the call's entry: the entry stays and a later response/drain completes the call twice (retire panics)")
				case f.Obj != nil && f.Obj.Name() == "Call" && f.Parent == nil:
					roles["pre-registration"]++
					c.checkCallRetireSite(f, call, key)
				case f.Lit != nil && c.c01BoundToCallLocal(f):
					// a literal bound to a local of Call that is only ever called in Call's own body (`fail := func(err) …`): the
					// retire happens where the local is called, and each of those places answers as a retire written there would
					sites, _ := c.c01BoundClosureSites(f)
					for i, st := range sites {
						roles["pre-registration"]++
						k := key
						if i > 0 {
							k += "#" + itoa(i)
						}
						c.checkCallRetireSite(st.In, st.Call, k)
					}
				default:
					c.Fail(key, f, call, "retire called outside the state lock and outside Call's pre-registration paths")
				}
			}
		}
		c.Pin("retire: delete+retire", roles["delete+retire"], 2)
		c.Pin("retire: drain", roles["drain"], 1)
		c.Pin("retire: pre-registration", roles["pre-registration"], 2)
	})

	c.Rule("R-C01-17", "a call whose request could not be written is completed, however the write path is factored: when Call no longer goes through Connection.write + Retire (R-C01-3's shape) but writes and retires in place, then with the write failed and the call still registered every way out of Call passes a locked closure that retires it, and every path through that closure does", func() {
		call := c.Fn(pJ, "Connection", "Call")
		writeObj := c.FnObj(pJ, "Connection", "write")
		retireObj := c.FnObj(pJ, "AsyncCall", "retire")
		outgoing := c.Field(pJ, "inFlightState", "outgoingCalls")
		g := call.Graph()
		if len(g.callVertices(writeObj)) > 0 {
			c.Ok("Call:failed-write-retires", call, nil, "Call writes through Connection.write and retires through Connection.Retire: decided by R-C01-3")
			return
		}
		// the transport write and its error
		wv := -1
		var errVar types.Object
		for v := 0; v < g.N; v++ {
			if g.Node(v) == nil {
				continue
			}
			for _, cl := range call.AllCalls(g.Node(v), false) {
				if fn := call.Callee(cl); fn != nil && fn.Name() == "Write" {
					if sel, ok := ast.Unparen(cl.Fun).(*ast.SelectorExpr); ok && strings.HasSuffix(call.FieldPath(sel.X), ".writer") {
						wv, errVar = v, errVarOfCall(call, g.Node(v))
					}
				}
			}
		}
		c.Need(wv >= 0 && errVar != nil, "Call: the transport write and its error")
		isAC := func(f *Func, e ast.Expr) bool {
			n := namedOf(f.TypeOf(e))
			return n != nil && n.Obj().Name() == "AsyncCall"
		}
		var retiring []int
		okInside := true
		for _, s := range c.uifSites(call) {
			if len(s.Lit.CallsIn(s.Lit.Body, retireObj, false)) == 0 || !g.ReachableFrom(wv)[g.VertexOf(s.Call)] {
				continue
			}
			retiring = append(retiring, g.VertexOf(s.Call))
			lg := s.Lit.Graph()
			isRetire := func(v int) bool { return lg.Node(v) != nil && s.Lit.ContainsCall(lg.Node(v), retireObj) }
			leaf := func(e ast.Expr) tri {
				if x, twn, ok := NilTest(e); ok && isAC(s.Lit, x) {
					if twn {
						return triFalse
					}
					return triTrue
				}
				// still registered: outgoingCalls[id] == ac
				if x, y, op, ok := binaryCmp(e); ok && (op == token.EQL || op == token.NEQ) {
					for _, side := range []ast.Expr{x, y} {
						if m, _, isIx := indexOf(side); isIx && s.Lit.IsField(m, outgoing) {
							if op == token.EQL {
								return triTrue
							}
							return triFalse
						}
					}
				}
				return triUnknown
			}
			avoid := lg.ReachUnder(leaf, isRetire)
			for _, x := range lg.Exits {
				if avoid[x] && !isRetire(x) {
					okInside = false
					c.Fail("Call:failed-write-retires:inside-the-closure", s.Lit, lg.Node(x), "a path through the locked closure leaves without retiring a call that is still registered: its Await blocks until the context ends, and the connection never becomes idle")
				}
			}
		}
		c.Need(len(retiring) > 0, "Call: a locked closure behind the write that retires the call")
		leaf := func(e ast.Expr) tri {
			if x, twn, ok := NilTest(e); ok {
				if call.ObjOf(x) == errVar || isAC(call, x) {
					if twn {
						return triFalse
					}
					return triTrue
				}
			}
			return triUnknown
		}
		isRet := func(v int) bool {
			for _, r := range retiring {
				if r == v {
					return true
				}
			}
			return false
		}
		avoid := g.ReachUnder(leaf, isRet)
		after := g.ReachableFrom(wv)
		okOutside := true
		for _, x := range g.Exits {
			if avoid[x] && after[x] && !isRet(x) {
				okOutside = false
			}
		}
		c.Check(okOutside, "Call:failed-write-retires:reaches-the-closure", call, g.Node(wv), "with the write failed every way out of Call passes the locked closure that retires the call")
		if okInside {
			c.Ok("Call:failed-write-retires:inside-the-closure", call, nil, "every path through the retiring closure(s) retires a call that is still registered")
		}
	})

	c.Rule("R-C01-3", "Call registers the call under the state lock (refusing when shutting down) before writing, and retires it when the write fails", func() {
		call := c.Fn(pJ, "Connection", "Call")
		g := call.Graph()
		writeObj := c.FnObj(pJ, "Connection", "write")
		retireObj := c.FnObj(pJ, "AsyncCall", "retire")
		RetireObj := c.FnObj(pJ, "Connection", "Retire")
		shut := c.FnObj(pJ, "inFlightState", "shuttingDown")
		outgoing := c.Field(pJ, "inFlightState", "outgoingCalls")
		// the insertion closure
		var ins *uifSite
		var insStmt ast.Node
		for _, s := range c.uifSites(call) {
			s := s
			for _, w := range Writes(s.Lit.Body, false) {
				if m, _, ok := indexOf(w.LHS); ok && s.Lit.IsField(m, outgoing) {
					ins, insStmt = &s, w.Stmt
				}
			}
		}
		c.Need(ins != nil, "Call: updateInFlight closure inserting into outgoingCalls")
		lg := ins.Lit.Graph()
		iv := lg.VertexOf(insStmt)
		okd, _ := lg.DominatedBy(iv, lg.hasCall(shut))
		guards := lg.GuardsAt(iv)
		guarded := hasAtom(guards, func(a Atom) bool { return AtomSaysNil(a, true, func(e ast.Expr) bool { return true }) })
		c.Check(okd && guarded, "Call:insert-guarded-by-shuttingDown", ins.Lit, insStmt,
			"insertion into outgoingCalls is dominated by the shuttingDown test in the same locked closure (guards: %s); otherwise a call registered after the reader has drained the table is never completed", atomsString(guards))
		uv := g.VertexOf(ins.Call)
		wvs := g.callVertices(writeObj)
		c.Need(len(wvs) == 1, "Call: exactly one c.write")
		wv := wvs[0]
		c.Check(g.Dominates(uv, wv), "Call:register-before-write", call, g.Node(wv), "the registration closure dominates the write (a response can only arrive for a registered call)")
		isRetire := func(v int) bool {
			n := g.Node(v)
			return n != nil && (call.ContainsCall(n, retireObj) || call.ContainsCall(n, RetireObj) || c.c01CallsRetiringClosure(call, n))
		}
		okp, path := g.MustPass(g.Entry, g.Exits, func(v int) bool { return v == wv || isRetire(v) })
		c.paths++
		if okp {
			c.Ok("Call:every-exit-retired-or-written", call, nil, "every path to return retires the call or has written the request")
		} else {
			c.Fail("Call:every-exit-retired-or-written", call, nil, "a path returns the AsyncCall neither retired nor written (%s): Await blocks until ctx ends", g.PathString(path))
		}
		// the write's failure branch retires
		var errVar types.Object
		for _, w := range Writes(g.Node(wv), false) {
			errVar = call.ObjOf(w.LHS)
		}
		c.Need(errVar != nil, "Call: error variable of c.write")
		found := false
		for _, cv := range g.condVertices() {
			cond := g.Node(cv - 1).(ast.Expr)
			x, twn, ok := NilTest(cond)
			if !ok || call.ObjOf(x) != errVar {
				continue
			}
			found = true
			t, f := g.BranchTargets(cv - 1)
			failTarget := t
			if twn {
				failTarget = f
			}
			okr, p2 := g.MustPassIncl(failTarget, g.Exits, func(v int) bool {
				n := g.Node(v)
				if n == nil {
					return false
				}
				for _, rc := range call.CallsIn(n, RetireObj, false) {
					if len(rc.Args) == 2 && call.ObjOf(rc.Args[1]) == errVar {
						return true
					}
				}
				return false
			})
			if g.Node(failTarget) != nil && isRetire(failTarget) {
				okr = true
			}
			c.paths++
			if okr {
				c.Ok("Call:retire-on-write-failure", call, cond, "every path through the failed-write branch calls c.Retire(ac, err)")
			} else {
				c.Fail("Call:retire-on-write-failure", call, cond, "failed write does not retire the call on path %s: the entry stays registered and Await hangs (per-message rejected writes do not break the connection)", g.PathString(p2))
			}
		}
		c.Check(found, "Call:write-error-tested", call, g.Node(wv), "the error of c.write is tested")
	})

	c.Rule("R-C01-4", "when the reader exits, one locked closure records the read error, completes every pending call with it and clears the table", func() {
		ri := c.Fn(pJ, "Connection", "readIncoming")
		g := ri.Graph()
		readErr := c.Field(pJ, "inFlightState", "readErr")
		reading := c.Field(pJ, "inFlightState", "reading")
		outgoing := c.Field(pJ, "inFlightState", "outgoingCalls")
		retireObj := c.FnObj(pJ, "AsyncCall", "retire")
		var drain *uifSite
		for _, s := range c.uifSites(ri) {
			s := s
			if s.In == ri && len(s.Lit.FieldWrites(s.Lit.Body, readErr, false)) > 0 {
				drain = &s
			}
		}
		c.Need(drain != nil, "readIncoming: closure writing readErr")
		dv := g.VertexOf(drain.Call)
		okp, path := g.MustPass(g.Entry, g.Exits, func(v int) bool { return v == dv })
		c.paths++
		if okp {
			c.Ok("readIncoming:exit-through-drain", ri, drain.Call, "every return of the reader passes through the drain closure")
		} else {
			c.Fail("readIncoming:exit-through-drain", ri, drain.Call, "the reader can exit without draining pending calls (%s): they stay blocked after Wait has returned", g.PathString(path))
		}
		l := drain.Lit
		lg := l.Graph()
		var rng *ast.RangeStmt
		inspectNoLit(l.Body, func(n ast.Node) {
			if r, ok := n.(*ast.RangeStmt); ok && l.IsField(r.X, outgoing) && len(l.CallsIn(r.Body, retireObj, false)) > 0 {
				rng = r
			}
		})
		if c.Check(rng != nil, "readIncoming:drain-loop", l, nil, "drain closure ranges over outgoingCalls and retires each entry") {
			// unconditional: the range is reached on every path through the closure
			rv := lg.VertexOf(rng.X)
			okq, _ := lg.MustPass(lg.Entry, lg.Exits, func(v int) bool { return v == rv })
			c.Check(okq || rv == lg.Entry, "readIncoming:drain-unconditional", l, rng, "the drain loop is on every path through the closure")
			// the error handed to each call is the read error variable
			for _, rc := range l.CallsIn(rng.Body, retireObj, false) {
				cl, ok := ast.Unparen(rc.Args[0]).(*ast.UnaryExpr)
				okErr := false
				if ok {
					if lit, ok := cl.X.(*ast.CompositeLit); ok {
						for _, el := range lit.Elts {
							if kv, ok := el.(*ast.KeyValueExpr); ok && exprStr(kv.Key) == "Error" {
								for _, w := range l.FieldWrites(l.Body, readErr, false) {
									if as, ok := w.(*ast.AssignStmt); ok && len(as.Rhs) == 1 && l.ObjOf(as.Rhs[0]) != nil && l.ObjOf(as.Rhs[0]) == l.ObjOf(kv.Value) {
										okErr = true
									}
								}
							}
						}
					}
				}
				c.Check(okErr, "readIncoming:drain-error", l, rc, "each drained call completes with the same error value that is stored in readErr")
			}
		}
		okReading := len(l.FieldWrites(l.Body, reading, false)) == 1
		if !okReading {
			// ... or a later locked closure of the reader does, on every path behind the drain
			for _, s2 := range c.uifSites(ri) {
				if s2.In != ri || len(s2.Lit.FieldWrites(s2.Lit.Body, reading, false)) != 1 {
					continue
				}
				sv := g.VertexOf(s2.Call)
				if okAfter, _ := g.MustPass(dv, g.Exits, func(v int) bool { return v == sv }); okAfter {
					okReading = true
				}
			}
		}
		c.Check(okReading, "readIncoming:reading=false", l, nil, "the drain closure (or a locked closure that every path behind it passes) clears the reading flag, which lets updateInFlight close done")
	})

	c.Rule("R-C01-5", "a response is matched to its call by id only; unknown ids are ignored; the entry is removed before the call completes", func() { responseArmRule(c) })

	c.Rule("R-C01-6", "Retire is idempotent: it completes the call only while the table still maps the call's id to this very call", func() {
		R := c.Fn(pJ, "Connection", "Retire")
		outgoing := c.Field(pJ, "inFlightState", "outgoingCalls")
		retireObj := c.FnObj(pJ, "AsyncCall", "retire")
		acParam := R.Params()[1]
		n := 0
		for _, s := range c.uifSites(R) {
			l := s.Lit
			lg := l.Graph()
			for _, rc := range l.CallsIn(l.Body, retireObj, false) {
				n++
				guards := lg.GuardsAt(lg.VertexOf(rc))
				ok := hasAtom(guards, func(a Atom) bool {
					x, y, op, isCmp := binaryCmp(a.E)
					if !isCmp || !a.Val || exprStr(&ast.BinaryExpr{X: x, Op: op, Y: y}) == "" {
						return false
					}
					if op.String() != "==" {
						return false
					}
					m, _, isIx := indexOf(x)
					other := y
					if !isIx {
						m, _, isIx = indexOf(y)
						other = x
					}
					return isIx && l.IsField(m, outgoing) && l.ObjOf(other) == acParam
				})
				c.Check(ok, "Retire:identity-guard", l, rc, "retire guarded by outgoingCalls[ac.id] == ac (guards: %s); without it a second Retire (write failure racing the reader's drain) panics in retire", atomsString(guards))
			}
		}
		c.Pin("Retire site", n, 1)
	})

	c.Rule("R-C01-8", "a transport's producer goroutine cannot die silently: its exit always reaches the session's reader (close or error), otherwise pending calls stay blocked (streamable client: R-C09-3)", func() { ruleC01ProducerExit(c) })
	c.Rule("R-C01-17", "the stdio/in-memory reader hands every outcome of a decode to Read, a failed decode included: between two Decode calls (and before exiting) the goroutine always passes the hand-off select, and it keeps its one decoder (bytes already buffered by a decoder that is dropped are lost, and with them the response that followed the garbage)", func() {
		nio := c.Fn(pM, "", "newIOConn")
		n := 0
		for _, l := range nio.AllLits() {
			var decCalls []*ast.CallExpr
			for _, call := range l.AllCalls(l.Body, false) {
				if fn := l.Callee(call); fn != nil && fn.FullName() == "(*encoding/json.Decoder).Decode" {
					decCalls = append(decCalls, call)
				}
			}
			if len(decCalls) == 0 {
				continue
			}
			c.touch(l)
			lg := l.Graph()
			incT := "incoming"
			_ = incT
			isHandOff := func(v int) bool {
				nd := lg.Node(v)
				if nd == nil {
					return false
				}
				found := false
				ast.Inspect(nd, func(x ast.Node) bool {
					if s, ok := x.(*ast.SendStmt); ok {
						if cl, ok := ast.Unparen(s.Value).(*ast.CompositeLit); ok && namedOf(l.TypeOf(cl)) == c.P.LookupType(pM, "msgOrErr") {
							found = true
						}
					}
					return true
				})
				return found
			}
			for _, dc := range decCalls {
				n++
				dv := lg.VertexOf(dc)
				ok, p := lg.MustPass(dv, append(append([]int(nil), lg.Exits...), dv), isHandOff)
				c.Check(ok, "ioConn-reader:every-decode-is-handed-over", l, dc, "from Decode every path to the next Decode or to the goroutine's end passes the send of msgOrErr %s", lg.PathString(p))
				// the decoder variable is assigned once
				if sel, isS := ast.Unparen(dc.Fun).(*ast.SelectorExpr); isS {
					if dobj := l.ObjOf(sel.X); dobj != nil {
						nw := len(l.writesToVar(l.Body, dobj, true))
						c.Check(nw <= 1, "ioConn-reader:one-decoder", l, dc, "the json.Decoder is created once per connection (%d assignments)", nw)
					}
				}
			}
		}
		c.Pin("Decode calls in the reader goroutine of newIOConn", n, 1)
	})
	c.Rule("R-C01-9", "streamable client: a call whose response stream breaks is completed by a synthetic error or by failing the connection, never left pending (shared with R-C09-3)", func() { ruleStreamNeverSilent(c) })
	c.Import("R-C01-13", "a response is matched to its call whatever spelling of the number the peer used for the id: decoded ids are strings or int64s only", "C19", "R-C19-1", func(k string) bool {
		return strings.HasPrefix(k, "ID-representation") || strings.HasPrefix(k, "ID literals")
	})

	c.Rule("R-C01-14", "transport wrappers are transparent for errors: what LoggingTransport's connection returns from Read, Write and Close is the delegate's own error (so jsonrpc2 still recognises ErrRejected, io.EOF and context errors through it)", func() {
		n := 0
		for _, name := range []string{"Read", "Write", "Close"} {
			f := c.Fn(pM, "loggingConn", name)
			g := f.Graph()
			delegF := c.Field(pM, "loggingConn", "delegate")
			var dcall *ast.CallExpr
			for _, call := range f.AllCalls(f.Body, false) {
				if sel, ok := ast.Unparen(call.Fun).(*ast.SelectorExpr); ok && sel.Sel.Name == name && f.IsField(sel.X, delegF) {
					dcall = call
				}
			}
			c.Need(dcall != nil, "loggingConn."+name+": delegate call")
			n++
			ok := false
			switch p := f.ParentOf(dcall).(type) {
			case *ast.ReturnStmt:
				ok = true // returned as it is
			case *ast.AssignStmt:
				errV := f.ObjOf(p.Lhs[len(p.Lhs)-1])
				ok = errV != nil
				for _, r := range f.Returns() {
					last := r.Results[len(r.Results)-1]
					if f.ObjOf(last) != errV || g.writtenBetween(errV, g.VertexOf(dcall), g.VertexOf(r)) {
						// a reassignment is fine only if it wraps the delegate's error with %w
						okWrap := false
						for _, w := range f.writesToVar(f.Body, errV, false) {
							if as, isAs := w.(*ast.AssignStmt); isAs && len(as.Rhs) == 1 && f.WrapsObj(as.Rhs[0], errV) && w != ast.Node(p) {
								okWrap = true
							}
						}
						if f.ObjOf(last) != errV || !okWrap {
							ok = false
						}
					}
				}
			}
			c.Check(ok, "loggingConn."+name+":returns-delegate-error", f, dcall, "the error returned is the delegate's (unchanged, or wrapped with %%w)")
		}
		c.Pin("loggingConn methods", n, 3)
	})

	c.Import("R-C01-11", "no message of a batch is dropped by the newline-delimited transports: responses in a batch complete their calls", "C03", "R-C03-7", func(k string) bool { return strings.HasPrefix(k, "ioConn.Read") || strings.HasPrefix(k, "readBatch") })
	c.Import("R-C01-12", "an abandoned call is retired whatever happens to the cancel notice (cancelCall), so it can never keep the connection from becoming idle", "C04", "R-C04-1", func(k string) bool {
		return strings.HasPrefix(k, "cancelCall:retire") || strings.HasPrefix(k, "call:retire")
	})

	c.Rule("R-C01-10", "the plumbing the other rules presuppose: the reader reads one message per iteration and dispatches it (responses by id, requests to acceptRequest), start marks the reader as running before it starts it, and Await hands the caller the response's error or decodes its result", func() {
		// the reader is started only after the handler has been bound: a message that arrives at once must find it
		nc := c.Fn(pJ, "", "NewConnection")
		ncg := nc.Graph()
		handlerF := c.Field(pJ, "Connection", "handler")
		startM := c.FnObj(pJ, "Connection", "start")
		var bindV = -1
		for _, w := range nc.FieldWrites(nc.Body, handlerF, false) {
			bindV = ncg.VertexOf(w)
		}
		sv := ncg.callVertices(startM)
		c.Check(bindV >= 0 && len(sv) == 1 && ncg.Dominates(bindV, sv[0]) && bindV != sv[0], "NewConnection:handler-bound-before-start", nc, nil, "c.handler is assigned before c.start launches the reader goroutine")
		ri := c.Fn(pJ, "Connection", "readIncoming")
		g := ri.Graph()
		readM := c.P.StdFunc(modPath+"/"+pJ, "Reader", "Read")
		c.Need(readM != nil, "jsonrpc2.Reader.Read")
		rv := g.callVertices(readM)
		c.Need(len(rv) == 1, "readIncoming: one Read call")
		var loop *ast.ForStmt
		inspectNoLit(ri.Body, func(n ast.Node) {
			if fs, ok := n.(*ast.ForStmt); ok && encloses(fs, g.Node(rv[0])) {
				loop = fs
			}
		})
		okLoop := loop != nil && loop.Cond == nil
		// what Read returns is what the type switch dispatches, and its error ends the loop
		msgV, errV := ri.VarFromCall(readM, 0), ri.VarFromCall(readM, 1)
		okSwitch := false
		accept := c.FnObj(pJ, "Connection", "acceptRequest")
		if loop != nil {
			ast.Inspect(loop.Body, func(n ast.Node) bool {
				ts, ok := n.(*ast.TypeSwitchStmt)
				if !ok {
					return true
				}
				var subject ast.Expr
				switch a := ts.Assign.(type) {
				case *ast.AssignStmt:
					if ta, ok := ast.Unparen(a.Rhs[0]).(*ast.TypeAssertExpr); ok {
						subject = ta.X
					}
				case *ast.ExprStmt:
					if ta, ok := ast.Unparen(a.X).(*ast.TypeAssertExpr); ok {
						subject = ta.X
					}
				}
				if subject != nil && ri.ObjOf(subject) == msgV && msgV != nil && g.Dominates(rv[0], g.VertexOf(ts.Assign)) {
					okSwitch = len(ri.CallsIn(ts.Body, accept, false)) == 1
				}
				return true
			})
		}
		okErr := false
		for _, t := range g.edgesWhere(func(a Atom) bool {
			return AtomSaysNil(a, false, func(e ast.Expr) bool { return errV != nil && ri.ObjOf(e) == errV })
		}) {
			// the failure edge leaves the loop: the next Read is not reachable from it
			if seen, _ := g.reach([]int{t}, nil, nil); !seen[rv[0]] {
				okErr = true
			}
		}
		c.Check(okLoop && okSwitch && okErr, "readIncoming:read-dispatch-loop", ri, g.Node(rv[0]), "an unconditional loop reads a message, leaves on a read error and otherwise dispatches the message it read (loop=%v dispatch=%v error-exit=%v)", okLoop, okSwitch, okErr)
		// start
		st := c.Fn(pJ, "Connection", "start")
		reading := c.Field(pJ, "inFlightState", "reading")
		okStart := false
		for _, s := range c.uifSites(st) {
			l := s.Lit
			lg := l.Graph()
			for _, gs := range l.goStmts() {
				if !l.IsCallTo(gs.Call, ri.Obj) {
					continue
				}
				for _, w := range l.FieldWrites(l.Body, reading, false) {
					if as, ok := w.(*ast.AssignStmt); ok && exprStr(as.Rhs[0]) == "true" && lg.Dominates(lg.VertexOf(w), lg.VertexOf(gs)) {
						okStart = true
					}
				}
			}
		}
		c.Check(okStart, "start:reading-set-before-reader-starts", st, nil, "reading = true is set (under the state lock) before `go readIncoming`: the idle test that closes the transport must see a reader that has not exited yet")
		// Await
		aw := c.Fn(pJ, "AsyncCall", "Await")
		ag := aw.Graph()
		respErr := func(e ast.Expr) bool { return aw.FieldPath(e) == "AsyncCall.response.Error" }
		okAw := false
		for _, t := range ag.edgesWhere(func(a Atom) bool { return AtomSaysNil(a, false, respErr) }) {
			okAw = true
			seen, _ := ag.reach([]int{t}, nil, nil)
			seen[t] = true
			for _, x := range ag.Exits {
				if seen[x] {
					r, isR := ag.Node(x).(*ast.ReturnStmt)
					if !isR || len(r.Results) != 1 || !respErr(r.Results[0]) {
						okAw = false
					}
				}
			}
		}
		c.Check(okAw, "Await:returns-response-error", aw, nil, "when the response carries an error, Await returns that error")
		okDec := false
		for _, r := range aw.Returns() {
			if len(r.Results) == 1 {
				if ce, ok := ast.Unparen(r.Results[0]).(*ast.CallExpr); ok && aw.Callee(ce) != nil && aw.Callee(ce).Name() == "Unmarshal" && len(ce.Args) == 2 {
					if aw.FieldPath(ce.Args[0]) == "AsyncCall.response.Result" && aw.ObjOf(ce.Args[1]) == types.Object(aw.NonRecvParams()[1]) {
						okDec = hasAtom(ag.GuardsAt(ag.VertexOf(r)), func(a Atom) bool { return AtomSaysNil(a, true, respErr) })
					}
				}
			}
		}
		c.Check(okDec, "Await:decodes-response-result", aw, nil, "otherwise the response's result is decoded into the caller's value")
	})

	c.Rule("R-C01-7", "closing errors are mapped to ErrConnectionClosed before the context arm; shuttingDown returns nil or an error wrapping its argument", func() {
		call := c.Fn(pM, "", "call")
		errClosed := c.Obj(pM, "ErrConnectionClosed")
		eCli := c.Obj(pJ, "ErrClientClosing")
		eSrv := c.Obj(pJ, "ErrServerClosing")
		isFn := c.Std("errors", "", "Is")
		// the arms are the condition vertices of call's flow graph — a tagless switch and an if / else-if chain are the same
		// thing there; `case a, b:` arrives as two vertices, `case a || b:` as one
		g := call.Graph()
		closingV, ctxV := -1, -1
		seenAt := map[types.Object]int{}
		for _, cv := range g.condVertices() {
			cond := g.Node(cv - 1).(ast.Expr)
			var alts []ast.Expr
			var flatOr func(e ast.Expr)
			flatOr = func(e ast.Expr) {
				if b, ok := ast.Unparen(e).(*ast.BinaryExpr); ok && b.Op == token.LOR {
					flatOr(b.X)
					flatOr(b.Y)
					return
				}
				alts = append(alts, ast.Unparen(e))
			}
			flatOr(cond)
			for _, e := range alts {
				if ce, ok := ast.Unparen(e).(*ast.CallExpr); ok && call.IsCallTo(ce, isFn) && len(ce.Args) == 2 {
					if o := call.ObjOf(ce.Args[1]); o == eCli || o == eSrv {
						seenAt[o] = cv - 1
					}
				}
				if x, twn, ok := NilTest(e); ok && !twn && ctxV < 0 {
					if ce, ok := ast.Unparen(x).(*ast.CallExpr); ok {
						if fn := call.Callee(ce); fn != nil && fn.Name() == "Err" && fn.Pkg() != nil && fn.Pkg().Path() == "context" {
							ctxV = cv - 1
						}
					}
				}
			}
		}
		cliV, okCli := seenAt[eCli]
		srvV, okSrv := seenAt[eSrv]
		if okCli && okSrv {
			closingV = cliV
			if srvV > closingV {
				closingV = srvV
			}
			// what the closing test leads to wraps ErrConnectionClosed
			wraps := true
			nRet := 0
			for _, v := range []int{cliV, srvV} {
				t, _ := g.BranchTargets(v)
				seen, _ := g.reach([]int{t}, nil, nil)
				seen[t] = true
				for _, r := range call.Returns() {
					rv := g.VertexOf(r)
					if !seen[rv] {
						continue
					}
					// the first return behind the true edge
					if ok, _ := g.MustPassIncl(t, g.Exits, func(u int) bool { return u == rv }); ok {
						nRet++
						if len(r.Results) != 1 || !call.WrapsObj(r.Results[0], errClosed) {
							wraps = false
						}
					}
				}
			}
			c.Check(wraps && nRet >= 1, "call:closing-arm-wraps-ErrConnectionClosed", call, g.Node(closingV), "the closing arm returns an error wrapping ErrConnectionClosed with %%w")
		}
		c.Check(closingV >= 0, "call:closing-arm", call, nil, "an arm tests errors.Is(err, ErrClientClosing) and errors.Is(err, ErrServerClosing)")
		okOrder := closingV >= 0 && ctxV >= 0 && g.Dominates(cliV, ctxV) && g.Dominates(srvV, ctxV) && cliV != ctxV && srvV != ctxV
		c.Check(okOrder, "call:closing-before-ctx", call, nil, "the closing arm precedes the ctx.Err() arm (a call on a closed session reports the connection as closed even if ctx also ended)")

		sd := c.Fn(pJ, "inFlightState", "shuttingDown")
		param := sd.Params()[1]
		for i, r := range sd.Returns() {
			ok := len(r.Results) == 1 && (isNilIdent(r.Results[0]) || sd.WrapsObj(r.Results[0], param))
			c.Check(ok, "shuttingDown:return#"+itoa(i), sd, r, "return value is nil or is/wraps errClosing (errors.Is in mcp.call depends on it)")
		}
		c.Pin("shuttingDown returns", len(sd.Returns()), 3)
	})
}

func ruleC01ProducerExit(c *Ctx) {
	// (1) SSE client: the goroutine that pumps events into incoming closes the transport on every exit
	sc := c.Fn(pM, "SSEClientTransport", "Connect")
	inF := c.Field(pM, "sseClientConn", "incoming")
	closeObj := c.FnObj(pM, "sseClientConn", "Close")
	n := 0
	for _, gs := range sc.goStmts() {
		lit := sc.LitArgOfGo(gs)
		if lit == nil || len(sendsOn(lit, inF)) == 0 {
			continue
		}
		n++
		c.touch(lit)
		lg := lit.Graph()
		isClose := func(v int) bool { nd := lg.Node(v); return nd != nil && lit.ContainsCall(nd, closeObj) }
		ok, path := lg.MustPass(lg.Entry, lg.Exits, isClose)
		if isClose(lg.Entry) {
			ok = true
		}
		if ok {
			c.Ok("sse-client-pump:closes-on-every-exit", lit, gs, "every exit of the event pump (read error, end of stream, client close) passes a (deferred) Close of the connection, so a blocked Read returns and pending calls are drained")
		} else {
			c.Fail("sse-client-pump:closes-on-every-exit", lit, gs, "the event pump can exit without closing the connection (%s): Read never returns, the jsonrpc2 reader never exits, pending calls and Wait hang", lg.PathString(path))
		}
	}
	c.Pin("SSE client pump goroutine", n, 1)
	// (2) ndjson reader goroutine: it exits only after handing the error to Read or after Close
	nio := c.Fn(pM, "", "newIOConn")
	m := 0
	for _, gs := range nio.goStmts() {
		lit := nio.LitArgOfGo(gs)
		if lit == nil {
			continue
		}
		m++
		c.touch(lit)
		lg := lit.Graph()
		var sends []int
		for v := 0; v < lg.N; v++ {
			if _, ok := lg.Node(v).(*ast.SendStmt); ok {
				sends = append(sends, v)
			}
		}
		c.Need(len(sends) == 1, "newIOConn reader: one send on incoming")
		for i, r := range lit.Returns() {
			if r.Pos() == lit.Body.End()-1 {
				continue
			}
			rv := lg.VertexOf(r)
			_, inClosedArm := lit.ParentOf(r).(*ast.CommClause)
			decErr := lit.VarFromCallNamed("Decode", 0)
			afterSend := lg.Dominates(sends[0], rv) && hasAtom(lg.GuardsAt(rv), func(a Atom) bool {
				return AtomSaysNil(a, false, func(e ast.Expr) bool { return lit.IsObjExpr(e, decErr) })
			})
			c.Check(inClosedArm || afterSend, "ioConn-reader:return#"+itoa(i), lit, r, "the reader goroutine exits only on the closed arm or after the read error has been handed to Read (so the session observes the failure)")
		}
	}
	c.Pin("ioConn reader goroutine", m, 1)
}

// checkCallRetireSite: a retire directly in Connection.Call must be on a path where ac has not been
// inserted into outgoingCalls.
func (c *Ctx) checkCallRetireSite(call *Func, rc *ast.CallExpr, key string) {
	g := call.Graph()
	outgoing := c.Field(pJ, "inFlightState", "outgoingCalls")
	rv := g.VertexOf(rc)
	var ins *uifSite
	var insStmt ast.Node
	for _, s := range c.uifSites(call) {
		s := s
		for _, w := range Writes(s.Lit.Body, false) {
			if m, _, ok := indexOf(w.LHS); ok && s.Lit.IsField(m, outgoing) {
				ins, insStmt = &s, w.Stmt
			}
		}
	}
	c.Need(ins != nil, "Call: insertion closure")
	uv := g.VertexOf(ins.Call)
	if !g.ReachableFrom(uv)[rv] {
		c.Ok(key+"@before-registration", call, rc, "retire before the registration closure can have run (call never inserted)")
		return
	}
	// After the closure: must be under guard E != nil where the closure inserts only under E == nil and
	// E is not written between.
	guards := g.GuardsAt(rv)
	var E types.Object
	for _, a := range guards {
		if x, twn, ok := NilTest(a.E); ok && (twn != a.Val) { // x != nil holds
			E = call.ObjOf(x)
		}
	}
	lg := ins.Lit.Graph()
	iv := lg.VertexOf(insStmt)
	insGuarded := E != nil && hasAtom(lg.GuardsAt(iv), func(a Atom) bool {
		return AtomSaysNil(a, true, func(e ast.Expr) bool { return ins.Lit.ObjOf(e) == E })
	})
	// writes to E in the outer function must all dominate the closure call; writes in the closure must
	// all precede the nil test that guards the insertion.
	clean := E != nil
	if E != nil {
		for _, w := range call.writesToVar(call.Body, E, false) {
			wv := g.VertexOf(w)
			if !(g.Dominates(wv, uv) && wv != uv) {
				clean = false
			}
		}
		for _, w := range ins.Lit.writesToVar(ins.Lit.Body, E, false) {
			if lg.ReachableFrom(iv)[lg.VertexOf(w)] {
				clean = false
			}
		}
	}
	k := key + "@after-registration"
	if insGuarded && clean {
		c.Ok(k, call, rc, "retire after the registration closure, on the branch %s != nil which the closure takes exactly when it did not insert", E.Name())
	} else {
		c.Fail(k, call, rc, "retire after the registration closure is not tied to the closure's non-insertion outcome (guards: %s): a registered call would be completed while still in the table → completed twice", atomsString(guards))
	}
}

func deepC01(c *Ctx) {
	c.Rule("R-C01-2t", "whole program (VTA): (*AsyncCall).retire has no caller outside internal/jsonrpc2's locked contexts", func() {
		retireObj := c.FnObj(pJ, "AsyncCall", "retire")
		callers := c.P.CallersOf(retireObj)
		for _, cl := range callers {
			inPkg := cl.PkgPath == modPath+"/"+pJ
			c.Check(inPkg, "vta-caller:"+cl.Name, nil, nil, "caller %s (%s) of retire in the VTA call graph", cl.Name, cl.Pos)
		}
		c.Pin("VTA callers of retire", len(callers), 4)
	})
}

// responseArmRule is shared by R-C01-5 and R-C04-4 (a late response to an abandoned call is a no-op).
func responseArmRule(c *Ctx) {
	ri := c.Fn(pJ, "Connection", "readIncoming")
	outgoing := c.Field(pJ, "inFlightState", "outgoingCalls")
	retireObj := c.FnObj(pJ, "AsyncCall", "retire")
	idField := c.Field(pJ, "Response", "ID")
	n := 0
	for _, s := range c.uifSites(ri) {
		l := s.Lit
		calls := l.CallsIn(l.Body, retireObj, false)
		if len(calls) == 0 || len(l.FieldWrites(l.Body, c.Field(pJ, "inFlightState", "readErr"), false)) > 0 {
			continue
		}
		n++
		// enclosing type-switch clause must be *Response
		cc, _ := ri.Enclosing(s.Call, func(n ast.Node) bool { _, ok := n.(*ast.CaseClause); return ok }).(*ast.CaseClause)
		isResp := cc != nil && len(cc.List) == 1 && namedOf(ri.TypeOf(cc.List[0])) == c.P.LookupType(pJ, "Response")
		c.Check(isResp, "response-arm:type", ri, s.Call, "completion closure sits in the *Response arm of the message type switch")
		// every response gets there: the closure is the first thing the arm does on every path (a response that is
		// "malformed", "late" or otherwise filtered in front of the lookup leaves its call pending for ever)
		if cc != nil && len(cc.Body) > 0 {
			rg := ri.Graph()
			var firstStmt ast.Stmt = cc.Body[0]
			for {
				b, isBlock := firstStmt.(*ast.BlockStmt)
				if !isBlock || len(b.List) == 0 {
					break
				}
				firstStmt = b.List[0]
			}
			first := rg.VertexOf(firstStmt)
			sv := rg.VertexOf(s.Call)
			okFirst := first == sv
			if !okFirst && first >= 0 && sv >= 0 {
				okFirst = rg.Dominates(sv, sv) && func() bool {
					// every path from the arm's first statement to anything outside the arm passes the closure call
					seen, _ := rg.reach([]int{first}, func(u int) bool { return u == sv }, nil)
					for u, in := range seen {
						if in && u != sv && rg.Node(u) != nil && !encloses(cc, rg.Node(u)) {
							return false
						}
					}
					return true
				}()
			}
			c.Check(okFirst, "response-arm:every-response-is-looked-up", ri, s.Call, "no path through the *Response arm skips the lookup-and-complete closure")
		}
		lg := l.Graph()
		rc := calls[0]
		rv := lg.VertexOf(rc)
		// lookup: ac, ok := s.outgoingCalls[msg.ID]
		var lookupKey ast.Expr
		var okVar, acVar types.Object
		for _, w := range Writes(l.Body, false) {
			as, isAs := w.Stmt.(*ast.AssignStmt)
			if !isAs || len(as.Lhs) != 2 || len(as.Rhs) != 1 {
				continue
			}
			if m, k, ok := indexOf(as.Rhs[0]); ok && l.IsField(m, outgoing) {
				lookupKey, acVar, okVar = k, l.ObjOf(as.Lhs[0]), l.ObjOf(as.Lhs[1])
			}
		}
		if !c.Check(lookupKey != nil, "response-arm:lookup", l, nil, "comma-ok lookup in outgoingCalls") {
			continue
		}
		c.Check(l.IsField(lookupKey, idField), "response-arm:key-is-response-id", l, lookupKey, "lookup key is the response's ID (%s)", exprStr(lookupKey))
		guards := lg.GuardsAt(rv)
		c.Check(hasAtom(guards, func(a Atom) bool { return a.Val && l.ObjOf(a.E) == okVar }), "response-arm:ok-guard", l, rc,
			"retire only under the ok guard (an unknown or late id is a no-op, never a nil dereference)")
		sel, _ := ast.Unparen(rc.Fun).(*ast.SelectorExpr)
		c.Check(sel != nil && l.ObjOf(sel.X) == acVar, "response-arm:retire-looked-up-call", l, rc, "the call retired is the one found under that id")
		c.Check(len(rc.Args) == 1 && l.ObjOf(rc.Args[0]) != nil && l.ObjOf(rc.Args[0]) == l.ObjOf(ast.Unparen(lookupKey).(*ast.SelectorExpr).X), "response-arm:payload", l, rc, "the response handed to the call is the message that carried the id")
		// delete with same key dominates retire
		delOK := false
		for _, dc := range l.AllCalls(l.Body, false) {
			if l.BuiltinName(dc) == "delete" && len(dc.Args) == 2 && l.IsField(dc.Args[0], outgoing) && sameExpr(dc.Args[1], lookupKey) {
				if lg.Dominates(lg.VertexOf(dc), rv) && lg.VertexOf(dc) != rv {
					delOK = true
				}
			}
		}
		if !delOK && acVar != nil && c.c01GuardRemoves(l, guards, acVar) && c.c01KeyedByOwnID() {
			// the entry is removed by a predicate of the state (true only after delete(outgoingCalls, ac.id)); calls are
			// registered under their own id and nowhere else, so the key removed is the key the call was found under
			delOK = true
		}
		c.Check(delOK, "response-arm:delete-before-retire", l, rc, "delete(outgoingCalls, sameKey) strictly dominates retire")
	}
	c.Pin("response arm", n, 1)
}

// ---- C01: completion through helpers that are not expanded in place (a closure bound to a local, a predicate inside a
// compound condition) ----

type c01Site struct {
	In   *Func
	Call *ast.CallExpr
}

// c01BoundClosureSites: l is a function literal bound to a local variable that is written once, whose address is never
// taken and that occurs otherwise only as the callee of plain calls (not go/defer, never passed on). It returns those
// calls, each with the function (root or literal) in whose body it stands.
func (c *Ctx) c01BoundClosureSites(l *Func) ([]c01Site, bool) {
	if l.Lit == nil || l.Parent == nil {
		return nil, false
	}
	root := l.Root()
	var v types.Object
	nW := 0
	for _, w := range Writes(root.Body, true) {
		if w.RHS != nil && ast.Unparen(w.RHS) == ast.Expr(l.Lit) {
			if id, ok := ast.Unparen(w.LHS).(*ast.Ident); ok {
				v = root.ObjOf(id)
			}
		}
	}
	if v == nil || root.addressTaken(v) {
		return nil, false
	}
	for _, w := range Writes(root.Body, true) {
		if id, ok := ast.Unparen(w.LHS).(*ast.Ident); ok && root.ObjOf(id) == v {
			if _, isVS := w.Stmt.(*ast.ValueSpec); isVS && w.RHS == nil {
				continue
			}
			nW++
		}
	}
	if nW != 1 {
		return nil, false
	}
	var sites []c01Site
	ok := true
	ast.Inspect(root.Body, func(n ast.Node) bool {
		id, isID := n.(*ast.Ident)
		if !isID || root.Info().Uses[id] != v {
			return true
		}
		ce, isCall := root.ParentOf(id).(*ast.CallExpr)
		if !isCall || ast.Unparen(ce.Fun) != ast.Expr(id) {
			ok = false
			return true
		}
		switch root.ParentOf(ce).(type) {
		case *ast.GoStmt, *ast.DeferStmt:
			ok = false
			return true
		}
		in := root
		for _, x := range root.AllLits() {
			if encloses(x.Lit, ce) {
				in = x // pre-order: the last one that encloses is the innermost
			}
		}
		sites = append(sites, c01Site{in, ce})
		return true
	})
	return sites, ok && len(sites) > 0
}

// c01BoundToCallLocal: l is such a closure of Connection.Call, and every call of it stands in Call's own body.
func (c *Ctx) c01BoundToCallLocal(l *Func) bool {
	root := l.Root()
	if root.Obj == nil || root.Obj != c.FnObj(pJ, "Connection", "Call") || l.Parent != root {
		return false
	}
	sites, ok := c.c01BoundClosureSites(l)
	if !ok {
		return false
	}
	for _, s := range sites {
		if s.In != root {
			return false
		}
	}
	return true
}

// c01AlwaysRetires: every path through the literal passes (*AsyncCall).retire.
func (c *Ctx) c01AlwaysRetires(l *Func) bool {
	retireObj := c.FnObj(pJ, "AsyncCall", "retire")
	if len(l.CallsIn(l.Body, retireObj, false)) == 0 {
		return false
	}
	lg := l.Graph()
	isR := func(v int) bool { n := lg.Node(v); return n != nil && l.ContainsCall(n, retireObj) }
	ok, _ := lg.MustPassIncl(lg.Entry, lg.Exits, isR)
	return ok
}

// c01CallsRetiringClosure: node n of f calls a local that stands for a literal every path of which retires.
func (c *Ctx) c01CallsRetiringClosure(f *Func, n ast.Node) bool {
	for _, cl := range f.AllCalls(n, false) {
		id, ok := ast.Unparen(cl.Fun).(*ast.Ident)
		if !ok {
			continue
		}
		if _, isVar := f.ObjOf(id).(*types.Var); !isVar {
			continue
		}
		if fl, ok := ast.Unparen(f.valueOf(id)).(*ast.FuncLit); ok {
			if l := f.Root().LitFor(fl); l != nil && c.c01AlwaysRetires(l) {
				return true
			}
		}
	}
	return false
}

// c01RemovingPredicate: fn is a function of internal/jsonrpc2 with one boolean result and a *AsyncCall parameter p (never
// reassigned) that answers true only behind delete(outgoingCalls, p.id), and answers with the constants true/false only.
// It returns the index of p among the call's arguments.
func (c *Ctx) c01RemovingPredicate(fn *types.Func) (int, bool) {
	if fn == nil || fn.Pkg() == nil || relOf(fn.Pkg().Path()) != pJ {
		return 0, false
	}
	sig := fn.Type().(*types.Signature)
	if sig.Results().Len() != 1 || !types.Identical(sig.Results().At(0).Type().Underlying(), types.Typ[types.Bool]) {
		return 0, false
	}
	F := c.P.FuncOf(fn)
	if F == nil || F.Body == nil {
		return 0, false
	}
	outgoing := c.Field(pJ, "inFlightState", "outgoingCalls")
	idF := c.Field(pJ, "AsyncCall", "id")
	g := F.Graph()
	for i, p := range F.NonRecvParams() {
		if n := namedOf(p.Type()); n == nil || n.Obj().Name() != "AsyncCall" || n.Obj().Pkg() != fn.Pkg() {
			continue
		}
		if len(F.writesToVar(F.Body, p, true)) > 0 || F.addressTaken(p) {
			continue
		}
		dels := g.Vertices(func(n ast.Node) bool {
			for _, dc := range F.AllCalls(n, false) {
				if F.BuiltinName(dc) == "delete" && len(dc.Args) == 2 && F.IsField(dc.Args[0], outgoing) && F.IsField(dc.Args[1], idF) {
					if sel, ok := ast.Unparen(dc.Args[1]).(*ast.SelectorExpr); ok && F.ObjOf(sel.X) == types.Object(p) {
						return true
					}
				}
			}
			return false
		})
		nTrue, ok := 0, true
		for _, r := range F.Returns() {
			if len(r.Results) != 1 {
				ok = false
				break
			}
			val, isConst := F.ConstBool(r.Results[0])
			if !isConst {
				ok = false
				break
			}
			if !val {
				continue
			}
			nTrue++
			rv := g.VertexOf(r)
			dom := false
			for _, dv := range dels {
				if dv != rv && g.Dominates(dv, rv) {
					dom = true
				}
			}
			if !dom {
				ok = false
			}
		}
		if ok && nTrue > 0 {
			return i, true
		}
	}
	return 0, false
}

// c01GuardRemoves: among the conditions known to hold, one is a removing predicate applied to the variable ac.
func (c *Ctx) c01GuardRemoves(f *Func, guards []Atom, ac types.Object) bool {
	if ac == nil {
		return false
	}
	return hasAtom(guards, func(a Atom) bool {
		ce, ok := ast.Unparen(a.E).(*ast.CallExpr)
		if !ok || !a.Val {
			return false
		}
		i, isP := c.c01RemovingPredicate(f.Callee(ce))
		return isP && i < len(ce.Args) && f.ObjOf(ce.Args[i]) == ac
	})
}

// c01KeyedByOwnID: every store into the call table is outgoingCalls[x.id] = x: a call is found under its own id only.
func (c *Ctx) c01KeyedByOwnID() bool {
	outgoing := c.Field(pJ, "inFlightState", "outgoingCalls")
	idF := c.Field(pJ, "AsyncCall", "id")
	n, ok := 0, true
	for _, f := range c.funcsWithLits(pJ) {
		for _, w := range Writes(f.Body, false) {
			m, k, isIx := indexOf(w.LHS)
			if !isIx || !f.IsField(m, outgoing) {
				continue
			}
			n++
			sel, isSel := ast.Unparen(k).(*ast.SelectorExpr)
			if !isSel || !f.IsField(k, idF) || w.RHS == nil || f.ObjOf(sel.X) == nil || f.ObjOf(sel.X) != f.ObjOf(w.RHS) {
				ok = false
			}
		}
	}
	return ok && n > 0
}

package main

import (
	"go/ast"
	"go/token"
	"go/types"
	"strings"
)

func init() { register("C17", rulesC17, nil) }

func rulesC17(c *Ctx) {
	fsT := c.P.LookupType(pM, "featureSet")
	c.Need(fsT != nil, "mcp.featureSet")
	features := c.Field(pM, "featureSet", "features")
	sorted := c.Field(pM, "featureSet", "sortedKeys")
	isFSMethod := func(f *Func) bool {
		r := f.Root()
		return r.Recv() != nil && namedOf(r.Recv().Type()) != nil && namedOf(r.Recv().Type()).Origin() == fsT.Origin()
	}

	c.Rule("R-C17-1", "every mutation of a feature set invalidates its sorted index on all paths; the index is rebuilt before it is read; nothing outside featureSet touches either field", func() {
		nMut := 0
		for _, f := range c.funcsWithLits(pM) {
			ws := f.FieldWrites(f.Body, features, false)
			sw := f.FieldWrites(f.Body, sorted, false)
			if len(ws)+len(sw) == 0 {
				continue
			}
			if !isFSMethod(f) {
				if f.Root().Name() == "newFeatureSet" {
					continue
				}
				for _, w := range append(ws, sw...) {
					c.Fail("featureSet-field-writer:"+f.Name(), f, w, "featureSet state written outside its methods")
				}
				continue
			}
			if len(ws) == 0 {
				continue
			}
			g := f.Graph()
			isInvalidate := func(v int) bool {
				for _, w := range Writes(g.Node(v), false) {
					if f.IsField(w.LHS, sorted) && w.RHS != nil && isNilIdent(w.RHS) {
						return true
					}
				}
				return false
			}
			for i, w := range ws {
				nMut++
				wv := g.VertexOf(w)
				key := f.Name() + ":mutation#" + itoa(i)
				okp, path := g.PostDominatedBy(wv, func(v int) bool { return g.Node(v) != nil && isInvalidate(v) })
				if okp {
					c.Ok(key, f, w, "every path from this mutation to return passes sortedKeys = nil")
					continue
				}
				if c17InsertInvalidates(f, g, w, features, sorted, fsT, isInvalidate) {
					c.Ok(key, f, w, "a write under a key that is already present keeps the key set; under a new key (the presence test of that very key answered false) every path to the write passes sortedKeys = nil, and nothing in the method rebuilds the index")
					continue
				}
				// flag idiom: the invalidation is under `if flag`, flag is monotone (false at declaration, constant true with the mutation)
				var flag types.Object
				for _, iv := range g.Vertices(func(n ast.Node) bool { return true }) {
					if isInvalidate(iv) {
						for _, a := range g.GuardsAt(iv) {
							if id, ok := a.E.(*ast.Ident); ok && a.Val {
								flag = f.ObjOf(id)
							}
						}
					}
				}
				okFlag := flag != nil
				if okFlag {
					setWith := false
					for _, fw := range f.writesToVar(f.Body, flag, true) {
						st, isAs := fw.(*ast.AssignStmt)
						if !isAs || len(st.Rhs) != len(st.Lhs) {
							okFlag = false // e.g. `_, flag = m[k]`: the flag then records only the last element
							continue
						}
						var rhs ast.Expr
						for j, l := range st.Lhs {
							if f.ObjOf(l) == flag {
								rhs = st.Rhs[j]
							}
						}
						switch exprStr(rhs) {
						case "false":
							if g.ReachableFrom(wv)[g.VertexOf(fw)] {
								okFlag = false
							}
						case "true":
							// in the same block as the mutation (both execute or neither)
							if f.ParentOf(fw) == f.ParentOf(w) || f.ParentOf(fw) == f.ParentOf(f.ParentOf(w)) {
								setWith = true
							}
						default:
							okFlag = false
						}
					}
					okFlag = okFlag && setWith
					// the `if flag` test lies on every path from the mutation to return, and is exactly the flag
					if okFlag {
						var condV = -1
						for _, cv := range g.condVertices() {
							if id, ok := ast.Unparen(g.Node(cv - 1).(ast.Expr)).(*ast.Ident); ok && f.ObjOf(id) == flag {
								condV = cv - 1
							}
						}
						okc := condV >= 0
						if okc {
							okc, _ = g.PostDominatedBy(wv, func(v int) bool { return v == condV })
						}
						okFlag = okc
					}
				}
				if okFlag {
					c.Ok(key, f, w, "the mutation sets a monotone flag in the same block and the index is invalidated under that flag on every path to return")
				} else if func() bool {
					// another design altogether: the index is updated in place (slices.Insert / Delete / append on sortedKeys)
					for _, g0 := range c.pkgClosure(f.Root()) {
						for _, fw := range g0.FieldWrites(g0.Body, sorted, true) {
							if as, isAs := fw.(*ast.AssignStmt); isAs && len(as.Rhs) == 1 && !isNilIdent(as.Rhs[0]) {
								return true
							}
						}
					}
					return false
				}() {
					if hf, hn, what := c17UnsortedMerge(c, f.Root(), sorted); hf != nil {
						c.Fail(key, hf, hn, "the sorted index is pruned in place by walking it and the list of removed keys in lock-step through a cursor that only moves forward — a merge, which drops all the keys only if that list is in ascending order too; %s: keys given out of order stay in the index after they left the map (the next list yields entries that are not registered)", what)
					} else {
						c.Undecided(key, f, w, "the sorted index is maintained in place instead of being invalidated: whether every mutation keeps it exact is not something this rule can decide")
					}
				} else {
					c.Fail(key, f, w, "a path leaves the method with features changed but sortedKeys still valid (%s): the next list walks stale keys (missing, duplicated or nil entries)", g.PathString(path))
				}
			}
		}
		c.Pin("featureSet mutations", nMut, 2)
		// readers of sortedKeys: sortKeys precedes
		sk := c.FnObj(pM, "featureSet", "sortKeys")
		for _, name := range []string{"all", "above"} {
			f := c.Fn(pM, "featureSet", name)
			g := f.Graph()
			sv := g.callVertices(sk)
			ok := len(sv) == 1 && (sv[0] == g.Entry || func() bool {
				okd, _ := g.MustPass(g.Entry, g.Exits, func(v int) bool { return v == sv[0] })
				return okd
			}())
			c.Check(ok, name+":sortKeys-first", f, nil, "%s() rebuilds the index before using it", name)
		}
		yf := c.FnObj(pM, "featureSet", "yieldFrom")
		for _, f := range c.funcsWithLits(pM) {
			for _, call := range f.CallsIn(f.Body, yf, false) {
				c.Check(isFSMethod(f) && (f.Root().Name() == "(*featureSet).all" || f.Root().Name() == "(*featureSet).above"), "yieldFrom-caller:"+f.Name(), f, call, "yieldFrom (which reads the index) is only reached through all()/above()")
			}
		}
		skF := c.Fn(pM, "featureSet", "sortKeys")
		okS := false
		for _, w := range Writes(skF.Body, false) {
			if skF.IsField(w.LHS, sorted) && w.RHS != nil && strings.Contains(exprStr(w.RHS), "slices.Sorted(maps.Keys(") {
				okS = true
			}
		}
		c.Check(okS, "sortKeys:sorted-keys-of-features", skF, nil, "the index is the sorted key set of features")
	})

	c.Rule("R-C17-2", "keyset pagination: the next page starts strictly after the last returned id; one extra element is looked at to decide whether a cursor is issued; at most pageSize items are returned", func() {
		ab := c.Fn(pM, "featureSet", "above")
		g := ab.Graph()
		okBS := false
		var idx, found types.Object
		for _, w := range Writes(ab.Body, false) {
			if as, ok := w.Stmt.(*ast.AssignStmt); ok && len(as.Lhs) == 2 && len(as.Rhs) == 1 {
				if ce, ok := ast.Unparen(as.Rhs[0]).(*ast.CallExpr); ok && ab.Callee(ce) != nil && ab.Callee(ce).FullName() == "slices.BinarySearch" {
					okBS = ab.IsField(ce.Args[0], sorted) && len(ab.NonRecvParams()) == 1 && ab.ObjOf(ce.Args[1]) == types.Object(ab.NonRecvParams()[0])
					idx, found = ab.ObjOf(as.Lhs[0]), ab.ObjOf(as.Lhs[1])
				}
			}
		}
		c.Check(okBS, "above:binary-search-on-index", ab, nil, "above(uid) locates uid in the sorted index")
		nInc := 0
		for _, w := range ab.writesToVar(ab.Body, idx, false) {
			if id, ok := w.(*ast.IncDecStmt); ok {
				nInc++
				guards := g.GuardsAt(g.VertexOf(w))
				c.Check(id.Tok == token.INC && hasAtom(guards, func(a Atom) bool { return a.Val && ab.ObjOf(a.E) == found }), "above:skip-exactly-the-found-id", ab, w, "the start index is advanced by one exactly when uid is present (strictly greater: the cursor's item is not repeated, a removed cursor item does not skip its successor)")
			}
		}
		c.Check(nInc == 1, "above:one-increment", ab, nil, "one conditional increment")
		pl := c.Fn(pM, "", "paginateList")
		pg := pl.Graph()
		pageSize := pl.ParamWhere(func(t types.Type) bool { b, ok := t.(*types.Basic); return ok && b.Kind() == types.Int })
		c.Need(pageSize != nil, "paginateList: the page-size parameter")
		// locals by role: the element counter is the incremented local; the page is the slice handed to setFunc
		var countVar, pageVar types.Object
		for _, w := range Writes(pl.Body, false) {
			if _, isInc := w.Stmt.(*ast.IncDecStmt); isInc {
				countVar = pl.ObjOf(w.LHS)
			}
		}
		setFunc := pl.NonRecvParams()[len(pl.NonRecvParams())-1]
		for _, call := range pl.AllCalls(pl.Body, false) {
			if pl.ObjOf(call.Fun) == types.Object(setFunc) && len(call.Args) == 2 {
				pageVar = pl.ObjOf(call.Args[1])
			}
		}
		// every page handed to the result setter is collected from the sequence the cursor selected (all() without a cursor,
		// above(cursor) with one): no other source — a "the whole set fits one page" shortcut answers a cursor with page 1
		{
			nSet := 0
			for _, call := range pl.AllCalls(pl.Body, false) {
				if pl.ObjOf(call.Fun) != types.Object(setFunc) || len(call.Args) != 2 {
					continue
				}
				nSet++
				pv := pl.ObjOf(call.Args[1])
				okSrc := pv != nil
				for _, w := range Writes(pl.Body, false) {
					if pv == nil || pl.ObjOf(w.LHS) != pv || w.RHS == nil {
						continue
					}
					// features = append(features, f) inside `for f := range seq`, or a reslice of itself
					fromLoop := false
					if ce, ok := ast.Unparen(w.RHS).(*ast.CallExpr); ok && pl.BuiltinName(ce) == "append" && len(ce.Args) == 2 && pl.ObjOf(ce.Args[0]) == pv {
						if rs, ok := pl.Enclosing(w.Stmt, func(n ast.Node) bool { _, ok := n.(*ast.RangeStmt); return ok }).(*ast.RangeStmt); ok {
							if rs.Value == nil && rs.Key != nil && pl.ObjOf(rs.Key) == pl.ObjOf(ce.Args[1]) {
								fromLoop = true
							}
							if rs.Value != nil && pl.ObjOf(rs.Value) == pl.ObjOf(ce.Args[1]) {
								fromLoop = true
							}
						}
					}
					if sl, ok := ast.Unparen(w.RHS).(*ast.SliceExpr); ok && pl.ObjOf(sl.X) == pv {
						fromLoop = true
					}
					if !fromLoop {
						okSrc = false
					}
				}
				if _, isID := ast.Unparen(call.Args[1]).(*ast.Ident); !isID {
					okSrc = false
				}
				c.Check(okSrc, "paginateList:page-from-the-selected-sequence#"+itoa(nSet), pl, call, "the page given to the result is what the loop over the cursor-selected sequence collected (got %s)", exprStr(call.Args[1]))
			}
			c.Pin("result setter calls in paginateList", nSet, 1)
		}
		// first page vs cursor page
		okSeq := 0
		var ignored []string
		// (the sequence may be chosen in a helper behind paginateList, and handed back by return instead of assignment)
		type seqSite struct {
			f  *Func
			ce *ast.CallExpr
		}
		var sites []seqSite
		for _, g0 := range c.pkgClosure(pl) {
			for _, w := range Writes(g0.Body, false) {
				if w.RHS != nil {
					if ce, ok := ast.Unparen(w.RHS).(*ast.CallExpr); ok && g0.Callee(ce) != nil {
						sites = append(sites, seqSite{g0, ce})
					}
				}
			}
			if g0 != pl {
				for _, r := range g0.Returns() {
					for _, e := range r.Results {
						if ce, ok := ast.Unparen(e).(*ast.CallExpr); ok && g0.Callee(ce) != nil {
							sites = append(sites, seqSite{g0, ce})
						}
					}
				}
			}
		}
		for _, site := range sites {
			pl, ce := site.f, site.ce
			switch pl.Callee(ce).Name() {
			case "all":
				okSeq++
				// a cursor that was presented and decoded is answered from its position: the from-the-start sequence is not
				// chosen on any path behind the decoding (whatever the decoded id is — the empty string is an id like any other)
				gg := pl.Graph()
				av := gg.VertexOf(ce)
				for _, dv := range gg.callVertices(c.FnObj(pM, "", "decodeCursor")) {
					if av >= 0 && gg.ReachableFrom(dv)[av] {
						ignored = append(ignored, pl.At(ce))
					}
				}
			case "above":
				// the id comes from the decoded cursor
				dcVar := pl.VarFromCall(c.FnObj(pM, "", "decodeCursor"), 0)
				if name, on := pl.SelectorOn(ce.Args[0], dcVar); on && name == "LastUID" {
					okSeq++
				} else if dcVar != nil && pl.ObjOf(ce.Args[0]) == dcVar {
					// decodeCursor hands out the id itself: its successful return is <token>.LastUID
					dc := c.Fn(pM, "", "decodeCursor")
					for _, r := range dc.Returns() {
						if len(r.Results) == 2 && isNilIdent(r.Results[1]) {
							if s, isS := ast.Unparen(r.Results[0]).(*ast.SelectorExpr); isS && s.Sel.Name == "LastUID" {
								okSeq++
							}
						}
					}
				} else if id, isID := ast.Unparen(ce.Args[0]).(*ast.Ident); isID && dcVar != nil {
					// a local that is only ever given the decoded id (a zero declaration aside)
					n, all := 0, true
					for _, w := range Writes(pl.Root().Body, true) {
						if _, isLID := ast.Unparen(w.LHS).(*ast.Ident); !isLID || pl.ObjOf(w.LHS) != pl.ObjOf(id) || w.RHS == nil {
							continue
						}
						n++
						if name, on := pl.SelectorOn(w.RHS, dcVar); !on || name != "LastUID" {
							all = false
						}
					}
					if n > 0 && all {
						okSeq++
					}
				}
			}
		}
		c.Check(okSeq == 2, "paginateList:all-or-above-cursor", pl, nil, "no cursor → all(); cursor → above(decoded id)")
		c.Check(len(ignored) == 0, "paginateList:decoded-cursor-is-not-answered-from-the-start", pl, nil, "all() is not chosen on a path behind decodeCursor: once a cursor was presented and decoded the page starts strictly after its id, whatever that id is (%v: a cursor whose id is the empty string — issued by the server itself when \"\" is the last id of a page — restarts the listing, and the traversal never ends)", ignored)
		c.Need(countVar != nil && pageVar != nil, "paginateList: counter and page variables")
		// break at count == pageSize+1 before the append
		okBreak, okNoMore := false, false
		for _, cv := range pg.condVertices() {
			cond := pg.Node(cv - 1).(ast.Expr)
			x, y, op, ok := cmpOn(cond, func(e ast.Expr) bool { return pl.ObjOf(e) == countVar })
			if !ok || pl.ObjOf(x) != countVar {
				continue
			}
			// the other side is pageSize + 1 (in any spelling)
			if lf, k, isLin := linearForm(pl, y); !isLin || k != 1 || len(lf) != 1 || lf["param(int)"] != 1 {
				continue
			}
			t, _ := pg.BranchTargets(cv - 1)
			if op == token.EQL {
				// the append happens only on the false branch of this test (the true branch leaves the loop)
				for _, w := range Writes(pl.Body, false) {
					if ce, ok := ast.Unparen(w.RHS).(*ast.CallExpr); ok && w.RHS != nil && pl.BuiltinName(ce) == "append" && pl.ObjOf(w.LHS) == pageVar {
						wv := pg.VertexOf(w.Stmt)
						seenT, _ := pg.reach([]int{t}, nil, nil)
						okBreak = !seenT[wv] && hasAtom(pg.GuardsAt(wv), func(a Atom) bool { return !a.Val && a.E == ast.Unparen(cond) })
					}
				}
			}
			if op == token.LSS {
				if r, isR := pg.Node(t).(*ast.ReturnStmt); isR && len(r.Results) == 2 && isNilIdent(r.Results[1]) {
					okNoMore = true
				}
			}
		}
		c.Check(okBreak, "paginateList:stop-after-page-plus-one", pl, nil, "the scan stops at the (pageSize+1)-th element before appending it: at most pageSize items are returned")
		c.Check(okNoMore, "paginateList:no-cursor-on-last-page", pl, nil, "fewer than pageSize+1 elements seen → the result is returned without a cursor")
		enc := c.FnObj(pM, "", "encodeCursor")
		okLast := false
		for _, call := range pl.CallsIn(pl.Body, enc, false) {
			if uc, ok := ast.Unparen(call.Args[0]).(*ast.CallExpr); ok && strings.HasSuffix(exprStr(uc.Fun), "uniqueID") && len(uc.Args) == 1 {
				if ix, ok := ast.Unparen(uc.Args[0]).(*ast.IndexExpr); ok && pl.ObjOf(ix.X) == pageVar {
					if b, ok := ast.Unparen(ix.Index).(*ast.BinaryExpr); ok && b.Op == token.SUB && func() bool {
						lc, ok := ast.Unparen(b.X).(*ast.CallExpr)
						return ok && pl.BuiltinName(lc) == "len" && pl.ObjOf(lc.Args[0]) == pageVar
					}() {
						if k, isC := pl.ConstInt(b.Y); isC && k == 1 {
							okLast = true
						}
					}
				}
			}
		}
		c.Check(okLast, "paginateList:cursor-is-last-returned-id", pl, nil, "the cursor encodes the unique id of the last item actually returned")
	})

	c.Rule("R-C17-3", "feature sets are only touched with their owner's lock held", func() {
		le := c.lockEnv()
		owners := map[string]string{"tools": "Server.mu", "prompts": "Server.mu", "resources": "Server.mu", "resourceTemplates": "Server.mu"}
		n := 0
		for _, f := range le.all {
			if f.Pkg != c.P.Pkg(pM) {
				continue
			}
			for _, call := range f.AllCalls(f.Body, false) {
				sel, ok := ast.Unparen(call.Fun).(*ast.SelectorExpr)
				if !ok {
					continue
				}
				fn := f.Callee(call)
				if fn == nil || fn.Type().(*types.Signature).Recv() == nil || namedOf(fn.Type().(*types.Signature).Recv().Type()) == nil || namedOf(fn.Type().(*types.Signature).Recv().Type()).Origin() != fsT.Origin() {
					continue
				}
				recvSel, isSel := ast.Unparen(sel.X).(*ast.SelectorExpr)
				if !isSel {
					continue // call through a parameter (paginateList's fs): covered at the caller
				}
				fld, _ := f.ObjOf(recvSel).(*types.Var)
				if fld == nil || !fld.IsField() {
					continue
				}
				lock := owners[fld.Name()]
				if fld.Name() == "roots" {
					lock = "Client.mu"
				}
				if lock == "" {
					continue
				}
				n++
				held := le.heldAt(f, call)
				c.Check(held[lock], "featureSet-access:"+f.Name()+":"+fld.Name()+"."+fn.Name(), f, call, "%s.%s() is called with %s held (held: %s)", fld.Name(), fn.Name(), lock, setString(held))
			}
			// feature sets passed to helpers (paginateList(s.tools, ...)) must be passed under the lock too
			for _, call := range f.AllCalls(f.Body, false) {
				for _, a := range call.Args {
					s, ok := ast.Unparen(a).(*ast.SelectorExpr)
					if !ok {
						continue
					}
					fld, _ := f.ObjOf(s).(*types.Var)
					if fld == nil || !fld.IsField() || owners[fld.Name()] == "" || namedOf(fld.Type()) == nil || namedOf(fld.Type()).Origin() != fsT.Origin() {
						continue
					}
					n++
					held := le.heldAt(f, call)
					c.Check(held[owners[fld.Name()]], "featureSet-passed:"+f.Name()+":"+fld.Name(), f, call, "%s is handed to %s with %s held", fld.Name(), exprStr(call.Fun), owners[fld.Name()])
				}
			}
		}
		c.Pin("feature-set accesses", n, 14)
	})

	c.Rule("R-C17-10", "there is one notion of 'the sorted index has not been built': sortKeys rebuilds when sortedKeys is nil, so every other decision about the index's existence tests nil too — a `len(sortedKeys) == 0` test somewhere else treats a built-but-empty index as missing (or a missing one as built) and the two disagree after the set was emptied", func() {
		var nilTests, lenTests []string
		n := 0
		for _, f := range c.funcsWithLits(pM) {
			g := f.Graph()
			for _, cv := range g.condVertices() {
				var atoms []Atom
				splitAtoms(g.Node(cv-1).(ast.Expr), true, &atoms)
				for _, a := range atoms {
					if x, _, ok := NilTest(a.E); ok && f.IsField(x, sorted) {
						nilTests = append(nilTests, f.At(a.E))
						n++
					}
					if x, y, op, ok := binaryCmp(a.E); ok && (op == token.EQL || op == token.NEQ || op == token.GTR) {
						if ce, isC := ast.Unparen(x).(*ast.CallExpr); isC && f.BuiltinName(ce) == "len" && len(ce.Args) == 1 && f.IsField(ce.Args[0], sorted) {
							if z, isZ := f.ConstInt(y); isZ && z == 0 {
								lenTests = append(lenTests, f.At(a.E))
								n++
							}
						}
					}
				}
			}
		}
		c.Pin("existence tests of the sorted index", n, 1)
		c.Check(len(nilTests) == 0 || len(lenTests) == 0, "sortedKeys:one-notion-of-not-built", nil, nil, "the index's existence is tested as nil-ness in %v and as emptiness in %v", nilTests, lenTests)
	})

	c.Rule("R-C17-4", "a malformed cursor is answered invalid-params, whatever makes it malformed", func() {
		pl := c.Fn(pM, "", "paginateList")
		pg := pl.Graph()
		dc := c.FnObj(pM, "", "decodeCursor")
		eIP := c.Obj(pJ, "ErrInvalidParams")
		// the call in paginateList behind which the cursor is decoded: decodeCursor itself, or a helper that reaches it
		var dv []int
		var callee *Func
		for v := 0; v < pg.N; v++ {
			if pg.Node(v) == nil {
				continue
			}
			for _, call := range pl.AllCalls(pg.Node(v), false) {
				fn := pl.Callee(call)
				if fn == nil {
					continue
				}
				if fn == dc {
					dv, callee = append(dv, v), c.P.FuncOf(dc)
					continue
				}
				if h := c.P.FuncOf(fn); h != nil && h.Pkg == pl.Pkg {
					for _, k := range c.pkgClosure(h) {
						if k.Obj == dc {
							dv, callee = append(dv, v), h
						}
					}
				}
			}
		}
		c.Need(len(dv) == 1 && callee != nil, "paginateList: decodeCursor")
		ev := errVarOfCall(pl, pg.Node(dv[0]))
		// every error a function hands back is invalid-params: it wraps the sentinel, or forwards the error of a callee of
		// which the same holds
		var allInvalidParams func(h *Func, depth int) bool
		allInvalidParams = func(h *Func, depth int) bool {
			if depth > 3 {
				return false
			}
			all := true
			hg := h.Graph()
			for _, dr := range h.Returns() {
				if len(dr.Results) != 2 || isNilIdent(dr.Results[1]) || h.WrapsObj(dr.Results[1], eIP) {
					continue
				}
				fwd := false
				if o := h.ObjOf(dr.Results[1]); o != nil {
					for v := 0; v < hg.N; v++ {
						if hg.Node(v) == nil || errVarOfCall(h, hg.Node(v)) != o {
							continue
						}
						for _, call := range h.AllCalls(hg.Node(v), false) {
							if k := c.P.FuncOf(h.Callee(call)); k != nil && k.Pkg == h.Pkg && allInvalidParams(k, depth+1) {
								fwd = true
							}
						}
					}
				}
				if !fwd {
					all = false
					c.Fail(h.Name()+":error-without-invalid-params", h, dr, "this failure branch does not wrap ErrInvalidParams, and paginateList forwards the error unchanged: such a cursor is answered with code 0")
				}
			}
			return all
		}
		okMap := false
		for _, r := range pl.Returns() {
			if len(r.Results) != 2 {
				continue
			}
			if !hasAtom(pg.GuardsAt(pg.VertexOf(r)), func(a Atom) bool { return AtomSaysNil(a, false, func(e ast.Expr) bool { return pl.ObjOf(e) == ev }) }) {
				continue
			}
			// the error tested is still the decode's: no later assignment of that variable lies between the call and this return
			otherWrite := func(u int) bool {
				if u == dv[0] {
					return false
				}
				for _, w := range Writes(pg.Node(u), false) {
					if pl.ObjOf(w.LHS) == ev {
						return true
					}
				}
				return false
			}
			if reach, _ := pg.reach(pg.succ[dv[0]], func(u int) bool { return pg.Node(u) != nil && otherWrite(u) }, nil); !reach[pg.VertexOf(r)] {
				continue
			}
			if pl.WrapsObj(r.Results[1], eIP) {
				okMap = true
				continue
			}
			if pl.ObjOf(r.Results[1]) == ev {
				okMap = allInvalidParams(callee, 0)
			}
		}
		c.Check(okMap, "paginateList:bad-cursor-is-invalid-params", pl, pg.Node(dv[0]), "the decode-error branch returns ErrInvalidParams (or an error that wraps it on every failure branch)")
		// no raw indexing with cursor-derived data
		ab := c.Fn(pM, "featureSet", "above")
		idxUses := 0
		inspectNoLit(ab.Body, func(n ast.Node) {
			if ix, ok := n.(*ast.IndexExpr); ok && ab.IsField(ix.X, sorted) {
				idxUses++
			}
		})
		c.Check(idxUses == 0, "above:no-unchecked-index", ab, nil, "above() never indexes the key slice directly with a cursor-derived position (yieldFrom bounds its loop by len)")
		yf := c.Fn(pM, "featureSet", "yieldFrom")
		okB := false
		inspectNoLit(yf.Body, func(n ast.Node) {
			if fs, ok := n.(*ast.ForStmt); ok && fs.Cond != nil {
				if _, y, op, isCmp := cmpOn(fs.Cond, func(e ast.Expr) bool { return !strings.Contains(exprStr(e), "len(") }); isCmp && op == token.LSS && strings.Contains(exprStr(y), "len(") {
					okB = true
				}
			}
		})
		c.Check(okB, "yieldFrom:bounded", yf, nil, "iteration is bounded by the length of the index")
	})

	c.Rule("R-C17-7", "every cursor the server issues is accepted back: decodeCursor fails only when one of its decoding steps fails (no other acceptance test, e.g. a length bound that encodeCursor does not observe)", func() {
		dc := c.Fn(pM, "", "decodeCursor")
		g := dc.Graph()
		n := 0
		for i, r := range dc.Returns() {
			if len(r.Results) != 2 || isNilIdent(r.Results[1]) {
				continue
			}
			n++
			guards := g.GuardsAt(g.VertexOf(r))
			// the return is on the failure edge of a call's error
			ok := hasAtom(guards, func(a Atom) bool {
				return AtomSaysNil(a, false, func(e ast.Expr) bool {
					o, isV := dc.ObjOf(e).(*types.Var)
					return isV && types.Identical(o.Type(), types.Universe.Lookup("error").Type())
				})
			})
			c.Check(ok, "decodeCursor:error-return#"+itoa(i), dc, r, "an error is returned only behind the failure of a decoding step (guards: %s)", atomsString(guards))
		}
		c.Pin("decodeCursor error returns", n, 2)
	})

	c.Import("R-C17-6", "a traversal never mixes pages of different list versions out of the client's cache: every notification-driven invalidation moves the cache generation (also when the cache is empty), and a page fetched before it is not stored afterwards", "C18", "R-C18-6", nil)

	c.Rule("R-C17-9", "the client iterator starts where the caller's params say and moves only by the server's cursors: in the code behind paginate the only value ever written into the params' cursor is the NextCursor of the page just fetched (a position kept in separate state starts empty and silently discards the caller's initial cursor)", func() {
		root := c.Fn(pM, "", "paginate")
		isPtrCall := func(f *Func, e ast.Expr, name string) bool {
			ce, ok := ast.Unparen(e).(*ast.CallExpr)
			if !ok {
				return false
			}
			sel, ok := ast.Unparen(ce.Fun).(*ast.SelectorExpr)
			if !ok || sel.Sel.Name != name {
				return false
			}
			fn, _ := f.ObjOf(sel.Sel).(*types.Func)
			return fn != nil && fn.Pkg() != nil && fn.Pkg().Path() == modPath+"/"+pM
		}
		// fromNext: e is *X where X is res.nextCursorPtr() or a local that only ever holds such a pointer; or a local string
		// that only ever holds such a dereference
		// fromCaller: e is the cursor the caller put into the params (*params.cursorPtr()), directly or through a local
		var fromCaller func(f *Func, e ast.Expr, depth int) bool
		fromCaller = func(f *Func, e ast.Expr, depth int) bool {
			if depth > 4 {
				return false
			}
			e = ast.Unparen(e)
			if st, ok := e.(*ast.StarExpr); ok {
				return isPtrCall(f, st.X, "cursorPtr")
			}
			if id, isID := e.(*ast.Ident); isID {
				return onlyFrom(f, id, depth, func(r ast.Expr) bool { return fromCaller(f, r, depth+1) })
			}
			return false
		}
		var fromNext func(f *Func, e ast.Expr, depth int) bool
		fromNext = func(f *Func, e ast.Expr, depth int) bool {
			if depth > 4 {
				return false
			}
			e = ast.Unparen(e)
			if st, ok := e.(*ast.StarExpr); ok {
				x := ast.Unparen(st.X)
				if isPtrCall(f, x, "nextCursorPtr") {
					return true
				}
				if id, isID := x.(*ast.Ident); isID {
					if onlyFrom(f, id, depth, func(r ast.Expr) bool { return isPtrCall(f, r, "nextCursorPtr") }) {
						return true
					}
					// a pointer parameter of a helper: every call of the helper behind paginate passes a nextCursorPtr()
					if pv, isV := f.ObjOf(id).(*types.Var); isV && f.Root().Obj != nil {
						idx := -1
						for i, p := range f.Root().NonRecvParams() {
							if p == pv {
								idx = i
							}
						}
						if idx >= 0 {
							n, all := 0, true
							for _, g0 := range c.pkgClosure(root) {
								for _, g := range append([]*Func{g0}, g0.AllLits()...) {
									for _, call := range g.AllCalls(g.Body, false) {
										if fn := g.Callee(call); fn == nil || fn.Origin() != f.Root().Obj.Origin() || idx >= len(call.Args) {
											continue
										}
										n++
										a := ast.Unparen(call.Args[idx])
										if !isPtrCall(g, a, "nextCursorPtr") {
											if aid, isAID := a.(*ast.Ident); !isAID || !onlyFrom(g, aid, depth+1, func(r ast.Expr) bool { return isPtrCall(g, r, "nextCursorPtr") }) {
												all = false
											}
										}
									}
								}
							}
							return n > 0 && all
						}
					}
					return false
				}
				return false
			}
			if id, isID := e.(*ast.Ident); isID {
				return onlyFrom(f, id, depth, func(r ast.Expr) bool { return fromNext(f, r, depth+1) || fromCaller(f, r, depth+1) })
			}
			// a field that holds the position: every value it is ever given — in the literals that create its struct (each
			// must name it: an omitted field starts empty) and in assignments — is a NextCursor or the caller's own cursor
			if sel, isSel := e.(*ast.SelectorExpr); isSel {
				fld, _ := f.ObjOf(sel.Sel).(*types.Var)
				if fld == nil || !fld.IsField() {
					return false
				}
				n := 0
				for _, g0 := range c.pkgClosure(root) {
					for _, g := range append([]*Func{g0}, g0.AllLits()...) {
						okAll := true
						inspectNoLit(g.Body, func(x ast.Node) {
							cl, isCL := x.(*ast.CompositeLit)
							if !isCL {
								return
							}
							st, isSt := g.TypeOf(cl).Underlying().(*types.Struct)
							if !isSt {
								return
							}
							has := false
							for i := 0; i < st.NumFields(); i++ {
								if st.Field(i) == fld {
									has = true
								}
							}
							if !has {
								return
							}
							n++
							named := false
							for _, el := range cl.Elts {
								if kv, isKV := el.(*ast.KeyValueExpr); isKV && g.ObjOf(kv.Key) == types.Object(fld) {
									named = true
									if !(fromNext(g, kv.Value, depth+1) || fromCaller(g, kv.Value, depth+1)) {
										okAll = false
									}
								}
							}
							if !named {
								okAll = false
							}
						})
						for _, w := range Writes(g.Body, false) {
							if ws, isWS := ast.Unparen(w.LHS).(*ast.SelectorExpr); isWS && g.ObjOf(ws.Sel) == types.Object(fld) {
								n++
								if w.RHS == nil || !(fromNext(g, w.RHS, depth+1) || fromCaller(g, w.RHS, depth+1)) {
									okAll = false
								}
							}
						}
						if !okAll {
							return false
						}
					}
				}
				return n > 0
			}
			return false
		}
		n := 0
		for _, f := range c.pkgClosure(root) {
			for _, fl := range append([]*Func{f}, f.AllLits()...) {
				for _, w := range Writes(fl.Body, false) {
					st, ok := ast.Unparen(w.LHS).(*ast.StarExpr)
					if !ok || !isPtrCall(fl, st.X, "cursorPtr") {
						continue
					}
					n++
					c.touch(fl)
					c.Check(w.RHS != nil && fromNext(fl, w.RHS, 0), "paginate:cursor-moves-only-by-NextCursor:"+fl.Name(), fl, w.Stmt, "the value written into the params' cursor (%s) is the NextCursor of a fetched page and nothing else", exprStr(w.RHS))
				}
			}
		}
		c.Pin("writes into the params' cursor behind paginate", n, 1)
	})

	c.Rule("R-C17-5", "the client iterators yield what manual paging yields: every item of every page, following NextCursor until it is empty, stopping at the first error", func() {
		p := c.Fn(pM, "", "paginate")
		var it *Func
		for _, l := range p.Lits() {
			it = l
		}
		c.Need(it != nil, "paginate: iterator literal")
		c.touch(it)
		g := it.Graph()
		yield := it.Params()[0]
		c.Need(len(p.Params()) == 4, "paginate(ctx, params, listFunc, items)")
		params, listFunc, itemsP := p.Params()[1], p.Params()[2], p.Params()[3]
		var lv = -1
		for v := 0; v < g.N; v++ {
			if n := g.Node(v); n != nil {
				for _, call := range it.AllCalls(n, false) {
					if it.ObjOf(call.Fun) == types.Object(listFunc) {
						lv = v
						c.Check(it.ObjOf(call.Args[1]) == types.Object(params), "paginate:lists-with-current-params", it, call, "each page is fetched with the (updated) params")
					}
				}
			}
		}
		c.Need(lv >= 0, "paginate: listFunc call")
		// every item yielded
		okItems := false
		inspectNoLit(it.Body, func(n ast.Node) {
			rs, ok := n.(*ast.RangeStmt)
			if !ok {
				return
			}
			if ce, ok := ast.Unparen(rs.X).(*ast.CallExpr); ok && it.ObjOf(ce.Fun) == types.Object(itemsP) {
				for _, call := range it.AllCalls(rs.Body, false) {
					if it.ObjOf(call.Fun) == types.Object(yield) && it.ObjOf(call.Args[0]) == it.ObjOf(rs.Value) && isNilIdent(call.Args[1]) {
						okItems = true
					}
				}
			}
		})
		c.Check(okItems, "paginate:yields-every-item", it, nil, "every element of items(res) is yielded")
		// cursor copy before next fetch; stop on empty
		okCopy, okStop := false, false
		for _, w := range Writes(it.Body, false) {
			if st, ok := ast.Unparen(w.LHS).(*ast.StarExpr); ok && strings.Contains(exprStr(st.X), "cursorPtr") && w.RHS != nil && strings.HasPrefix(exprStr(w.RHS), "*") {
				wv := g.VertexOf(w.Stmt)
				okCopy = g.ReachableFrom(wv)[lv] && g.ReachableFrom(lv)[wv]
				guards := g.GuardsAt(wv)
				okStop = hasAtom(guards, func(a Atom) bool {
					if a.Val {
						return false
					}
					b, isB := a.E.(*ast.BinaryExpr)
					return isB && b.Op == token.LOR && strings.Contains(exprStr(b), "== nil") && strings.Contains(exprStr(b), "== \"\"")
				})
			}
		}
		// ... on every path that fetches again
		if okCopy {
			for _, w := range Writes(it.Body, false) {
				if st, ok := ast.Unparen(w.LHS).(*ast.StarExpr); ok && strings.Contains(exprStr(st.X), "cursorPtr") {
					wv := g.VertexOf(w.Stmt)
					for _, cv := range g.condVertices() {
						cond := g.Node(cv - 1).(ast.Expr)
						if b, isB := ast.Unparen(cond).(*ast.BinaryExpr); isB && b.Op == token.LOR && strings.Contains(exprStr(b), "== \"\"") {
							_, f := g.BranchTargets(cv - 1)
							okp, _ := g.MustPass(f, []int{lv}, func(v int) bool { return v == wv })
							if f == wv {
								okp = true
							}
							okCopy = okp
						}
					}
				}
			}
		}
		c.Check(okCopy, "paginate:follows-next-cursor", it, nil, "the next cursor is copied into the params on every path that fetches another page (otherwise the same page is fetched forever)")
		c.Check(okStop, "paginate:stops-on-empty-cursor", it, nil, "iteration ends when NextCursor is nil or empty")
		// ... and for no other reason: what stands between a fetched page and the next fetch is the cursor test and nothing
		// else (an empty page with a cursor — a filtered page, a server that pads — is not the end: manual paging goes on)
		for _, w := range Writes(it.Body, false) {
			st, ok := ast.Unparen(w.LHS).(*ast.StarExpr)
			if !ok || !strings.Contains(exprStr(st.X), "cursorPtr") {
				continue
			}
			extra := ""
			for _, a := range g.GuardsAt(g.VertexOf(w.Stmt)) {
				if isCompound(a.E) {
					continue
				}
				if u, isU := a.E.(*ast.UnaryExpr); isU && u.Op == token.NOT {
					continue
				}
				if _, _, isNil := NilTest(a.E); isNil {
					continue
				}
				if strings.Contains(exprStr(a.E), "== \"\"") || strings.Contains(exprStr(a.E), "!= \"\"") {
					continue
				}
				// the error test of the list call and the consumer's "stop" are on the way too
				if id, isID := ast.Unparen(a.E).(*ast.Ident); isID {
					_ = id
					continue
				}
				if ce, isC := ast.Unparen(a.E).(*ast.CallExpr); isC && it.ObjOf(ce.Fun) == types.Object(yield) {
					continue
				}
				extra = a.String()
			}
			c.Check(extra == "", "paginate:stops-only-on-empty-cursor", it, w.Stmt, "only the cursor test (and the error / consumer-stop tests) stands between a fetched page and the next fetch (also found: %s)", extra)
		}
		// error: yield(nil, err) then return
		var listErr types.Object
		for _, w := range Writes(it.Body, false) {
			if as, ok := w.Stmt.(*ast.AssignStmt); ok && len(as.Lhs) == 2 && len(as.Rhs) == 1 {
				if ce, ok := ast.Unparen(as.Rhs[0]).(*ast.CallExpr); ok && it.ObjOf(ce.Fun) == types.Object(listFunc) {
					listErr = it.ObjOf(as.Lhs[1])
				}
			}
		}
		okErr := false
		for _, cv := range g.condVertices() {
			cond := g.Node(cv - 1).(ast.Expr)
			if x, twn, ok := NilTest(cond); ok && !twn && it.ObjOf(x) != nil && it.ObjOf(x) == listErr {
				t, _ := g.BranchTargets(cv - 1)
				seen, _ := g.reach([]int{t}, nil, nil)
				okErr = !seen[lv]
			}
		}
		c.Check(okErr, "paginate:stops-on-error", it, nil, "after a list error the iterator yields it and does not fetch again")
	})
}

// onlyFrom: id is a local variable (not a parameter, not a field) every definition of which satisfies ok.
func onlyFrom(f *Func, id *ast.Ident, depth int, ok func(ast.Expr) bool) bool {
	v, isVar := f.ObjOf(id).(*types.Var)
	if !isVar || v.IsField() {
		return false
	}
	for _, p := range f.Root().Params() {
		if p == v {
			return false
		}
	}
	n := 0
	for _, w := range Writes(f.Root().Body, true) {
		if f.ObjOf(w.LHS) != types.Object(v) {
			continue
		}
		if _, isID := ast.Unparen(w.LHS).(*ast.Ident); !isID {
			continue
		}
		n++
		if w.RHS == nil || !ok(w.RHS) {
			return false
		}
	}
	return n > 0
}

// c17InsertInvalidates: the mutation is `features[k] = v` and the method asks whether k is present (`_, ok := features[k]`)
// — a write under a present key replaces a value and leaves the key set, hence the index, as it was.  Evaluated with
// "k is new" (ok == false), no path reaches the write without passing the invalidation; and nothing in the method
// rebuilds the index (so an invalidation before the write is as good as one after it).
func c17InsertInvalidates(f *Func, g *Graph, w ast.Node, features, sorted *types.Var, fsT *types.Named, isInvalidate func(int) bool) bool {
	as, ok := w.(*ast.AssignStmt)
	if !ok || len(as.Lhs) != 1 {
		return false
	}
	ix, ok := ast.Unparen(as.Lhs[0]).(*ast.IndexExpr)
	if !ok || !f.IsField(ix.X, features) {
		return false
	}
	key := f.ObjOf(ix.Index)
	if key == nil || len(f.writesToVar(f.Body, key, true)) > 1 {
		return false
	}
	flags := map[types.Object]bool{}
	for _, wr := range Writes(f.Body, false) {
		st, isAs := wr.Stmt.(*ast.AssignStmt)
		if !isAs || len(st.Lhs) != 2 || len(st.Rhs) != 1 {
			continue
		}
		rx, isIx := ast.Unparen(st.Rhs[0]).(*ast.IndexExpr)
		if !isIx || !f.IsField(rx.X, features) || f.ObjOf(rx.Index) != key {
			continue
		}
		if o := f.ObjOf(st.Lhs[1]); o != nil && len(f.writesToVar(f.Body, o, true)) == 1 && g.Dominates(g.VertexOf(st), g.VertexOf(w)) {
			flags[o] = true
		}
	}
	if len(flags) == 0 {
		return false
	}
	for _, sw := range f.FieldWrites(f.Body, sorted, true) {
		if a2, isAs := sw.(*ast.AssignStmt); !isAs || len(a2.Rhs) != 1 || !isNilIdent(a2.Rhs[0]) {
			return false
		}
	}
	for _, call := range f.AllCalls(f.Body, true) {
		if fn := f.Callee(call); fn != nil && fn.Type().(*types.Signature).Recv() != nil {
			if rn := namedOf(fn.Type().(*types.Signature).Recv().Type()); rn != nil && rn.Origin() == fsT.Origin() {
				return false
			}
		}
	}
	seen := g.ReachUnder(func(e ast.Expr) tri {
		if id, isID := ast.Unparen(e).(*ast.Ident); isID && flags[f.ObjOf(id)] {
			return triFalse
		}
		return triUnknown
	}, func(v int) bool { return g.Node(v) != nil && isInvalidate(v) })
	wv := g.VertexOf(w)
	return wv >= 0 && !seen[wv]
}

// c17UnsortedMerge looks, behind a mutating method, for a lock-step walk of the sorted index against a second list
// (`for _, k := range sortedKeys { … k == other[cur] … cur++ }`, cur never set back inside the loop) and answers where
// that second list is handed over without having been sorted (nil function: no such walk, or its operand is sorted).
func c17UnsortedMerge(c *Ctx, root *Func, sorted *types.Var) (*Func, ast.Node, string) {
	closure := c.pkgClosure(root)
	for _, h := range closure {
		var other *ast.Ident
		var loop *ast.RangeStmt
		inspectNoLit(h.Body, func(n ast.Node) {
			rs, ok := n.(*ast.RangeStmt)
			if !ok || rs.Value == nil || !h.IsField(rs.X, sorted) {
				return
			}
			val := h.ObjOf(rs.Value)
			if val == nil {
				return
			}
			ast.Inspect(rs.Body, func(m ast.Node) bool {
				be, ok := m.(*ast.BinaryExpr)
				if !ok || be.Op != token.EQL {
					return true
				}
				for _, pr := range [][2]ast.Expr{{be.X, be.Y}, {be.Y, be.X}} {
					if h.ObjOf(pr[0]) != val {
						continue
					}
					ix, ok := ast.Unparen(pr[1]).(*ast.IndexExpr)
					if !ok {
						continue
					}
					bid, ok := ast.Unparen(ix.X).(*ast.Ident)
					cur := h.ObjOf(ix.Index)
					if !ok || cur == nil {
						continue
					}
					mono, nInc := true, 0
					for _, cw := range h.writesToVar(h.Body, cur, true) {
						if id, isInc := cw.(*ast.IncDecStmt); isInc && id.Tok == token.INC {
							nInc++
							continue
						}
						if cw.Pos() >= rs.Pos() && cw.End() <= rs.End() {
							mono = false
						}
					}
					if mono && nInc > 0 {
						other, loop = bid, rs
					}
				}
				return true
			})
		})
		if other == nil {
			continue
		}
		idx := -1
		for i, p := range h.Root().NonRecvParams() {
			if h.ObjOf(other) == types.Object(p) {
				idx = i
			}
		}
		if idx < 0 {
			if !c17SortedAt(h, other, loop) {
				return h, loop, "no sort of " + other.Name + " stands before the walk"
			}
			continue
		}
		if h.Root().Obj == nil {
			continue
		}
		for _, g0 := range closure {
			for _, k := range append([]*Func{g0}, g0.AllLits()...) {
				for _, call := range k.AllCalls(k.Body, false) {
					if fn := k.Callee(call); fn == nil || fn.Origin() != h.Root().Obj.Origin() || idx >= len(call.Args) {
						continue
					}
					if !c17SortedAt(k, call.Args[idx], call) {
						return k, call, exprStr(call.Args[idx]) + " is handed to " + h.Name() + " in the order it was collected (no sort of it stands before the call)"
					}
				}
			}
		}
	}
	return nil, nil, ""
}

// c17SortedAt: the value of e at node `at` is in ascending order: it is the result of slices.Sorted, or a variable which a
// sort call that every path to `at` passes has put in order, with no write to it in between.
func c17SortedAt(f *Func, e ast.Expr, at ast.Node) bool {
	e = ast.Unparen(e)
	isSort := func(fn *types.Func, names ...string) bool {
		if fn == nil || fn.Pkg() == nil {
			return false
		}
		for _, n := range names {
			if fn.Pkg().Path()+"."+fn.Name() == n {
				return true
			}
		}
		return false
	}
	if ce, ok := e.(*ast.CallExpr); ok {
		return isSort(f.Callee(ce), "slices.Sorted")
	}
	o := f.ObjOf(e)
	if o == nil {
		return false
	}
	g := f.Graph()
	av := g.VertexOf(at)
	if av < 0 {
		return false
	}
	for _, call := range f.AllCalls(f.Body, false) {
		if !isSort(f.Callee(call), "slices.Sort", "sort.Strings") || len(call.Args) != 1 || f.ObjOf(call.Args[0]) != o {
			continue
		}
		sv := g.VertexOf(call)
		if sv < 0 || !g.Dominates(sv, av) {
			continue
		}
		clean := true
		for _, w := range f.writesToVar(f.Body, o, false) {
			wv := g.VertexOf(w)
			if wv >= 0 && g.ReachableFrom(sv)[wv] && g.ReachableFrom(wv)[av] {
				clean = false
			}
		}
		if clean {
			return true
		}
	}
	return false
}

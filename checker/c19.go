package main

import (
	"go/ast"
	"go/constant"
	"go/token"
	"go/types"
	"sort"
	"strconv"
	"strings"

	"golang.org/x/tools/go/cfg"
)

func init() { register("C19", rulesC19, nil) }

// idExactnessRule is shared by R-C19-1 and R-C02-6.
func idExactnessRule(c *Ctx) {
	// representation invariant of ID: the dynamic value is a string or an int64 (or absent). Ids are map keys: the id of
	// an outgoing call is an int64, and a response id of any other dynamic type (a float64 for "7.0") would never match it.
	idT := c.P.LookupType(pJ, "ID")
	c.Need(idT != nil, "jsonrpc2.ID")
	nLit := 0
	for _, rel := range []string{pJ, pM, "jsonrpc"} {
		if c.P.Pkg(rel) == nil {
			continue
		}
		for _, f := range c.funcsWithLits(rel) {
			inspectNoLit(f.Body, func(n ast.Node) {
				cl, ok := n.(*ast.CompositeLit)
				if !ok || namedOf(f.TypeOf(cl)) != idT {
					return
				}
				for _, e := range cl.Elts {
					v := e
					if kv, isKV := e.(*ast.KeyValueExpr); isKV {
						v = kv.Value
					}
					nLit++
					t := f.TypeOf(v)
					okT := false
					if b, isB := t.Underlying().(*types.Basic); isB && (b.Kind() == types.String || b.Kind() == types.Int64 || b.Kind() == types.UntypedString) {
						okT = true
					}
					c.Check(okT, "ID-representation:"+f.Name(), f, cl, "an ID is built only from a string or an int64 (found %s)", types.TypeString(t, nil))
				}
			})
		}
	}
	c.Pin("ID literals with a value", nLit, 2)
	wd := c.P.LookupType(pJ, "wireDecode")
	c.Need(wd != nil, "jsonrpc2.wireDecode")
	idF := c.Field(pJ, "wireDecode", "ID")
	exact := false
	switch t := idF.Type().(type) {
	case *types.Named:
		exact = t.Obj().Name() == "RawMessage" || t.Obj().Name() == "Number"
	case *types.Alias:
		exact = true
	}
	if b, ok := idF.Type().Underlying().(*types.Basic); ok && b.Kind() == types.String {
		exact = true
	}
	if _, isIface := idF.Type().Underlying().(*types.Interface); isIface {
		exact = false
	}
	c.Check(exact, "wireDecode.ID:raw", nil, nil, "the id member is decoded into %s (raw text), not into any/float64: a float64 cannot represent integers beyond 2^53 (9007199254740993 would be echoed as …992)", idF.Type())
	makeID := c.FnObj(pJ, "", "MakeID")
	decodeID := c.FnObj(pJ, "", "DecodeID")
	parseInt := c.Std("strconv", "", "ParseInt")
	// callers of MakeID
	n := 0
	for _, rel := range []string{pJ, pM, "jsonrpc"} {
		if c.P.Pkg(rel) == nil {
			continue
		}
		for _, f := range c.funcsWithLits(rel) {
			for _, call := range f.CallsIn(f.Body, makeID, false) {
				n++
				g := f.Graph()
				v := g.VertexOf(call)
				okPI := false
				for _, pv := range g.callVertices(parseInt) {
					ev := errVarOfCall(f, g.Node(pv))
					if ev != nil && g.Dominates(pv, v) && hasAtom(g.GuardsAt(v), func(a Atom) bool { return AtomSaysNil(a, false, func(e ast.Expr) bool { return f.ObjOf(e) == ev }) }) {
						okPI = true
					}
				}
				// the same by evaluation: with a first byte of integer syntax ('-', '0', '5') every way to MakeID leads through
				// the ParseInt attempt (a switch on the first byte that sends only digits to ParseInt is the same decision)
				if !okPI && len(g.callVertices(parseInt)) > 0 && len(f.NonRecvParams()) == 1 {
					raw := f.NonRecvParams()[0]
					isFirstByte := func(e ast.Expr) bool {
						e = ast.Unparen(e)
						if ix, ok := e.(*ast.IndexExpr); ok {
							z, isZ := f.ConstInt(ix.Index)
							return isZ && z == 0 && f.ObjOf(ix.X) == types.Object(raw)
						}
						if id, ok := e.(*ast.Ident); ok {
							if lv, isV := f.ObjOf(id).(*types.Var); isV && !lv.IsField() {
								ws := f.writesToVar(f.Root().Body, lv, true)
								if len(ws) == 1 {
									if as, isAs := ws[0].(*ast.AssignStmt); isAs && len(as.Rhs) == 1 {
										if ix, ok := ast.Unparen(as.Rhs[0]).(*ast.IndexExpr); ok {
											z, isZ := f.ConstInt(ix.Index)
											return isZ && z == 0 && f.ObjOf(ix.X) == types.Object(raw)
										}
									}
								}
							}
						}
						return false
					}
					all := true
					for _, b := range []int64{'-', '0', '5', '9'} {
						leaf := func(e ast.Expr) tri {
							x, y, op, ok := binaryCmp(e)
							if !ok {
								return triUnknown
							}
							val, cst := x, y
							flip := false
							if !isFirstByte(val) {
								val, cst, flip = y, x, true
							}
							z, isZ := f.ConstInt(cst)
							if !isFirstByte(val) || !isZ {
								return triUnknown
							}
							l, r := b, z
							if flip {
								l, r = z, b
							}
							var res bool
							switch op {
							case token.EQL:
								res = l == r
							case token.NEQ:
								res = l != r
							case token.LSS:
								res = l < r
							case token.LEQ:
								res = l <= r
							case token.GTR:
								res = l > r
							case token.GEQ:
								res = l >= r
							default:
								return triUnknown
							}
							if res {
								return triTrue
							}
							return triFalse
						}
						isPI := func(u int) bool {
							for _, pv := range g.callVertices(parseInt) {
								if pv == u {
									return true
								}
							}
							return false
						}
						if g.ReachUnder(leaf, isPI)[v] {
							all = false
						}
					}
					// ... and ParseInt's failure is what lets it through
					if all {
						for _, pv := range g.callVertices(parseInt) {
							if ev := errVarOfCall(f, g.Node(pv)); ev != nil && g.ReachableFrom(pv)[v] {
								okPI = true
							}
						}
					}
				}
				// an exported API wrapper that forwards its own parameter is not a wire path
				if f.Obj != nil && f.Obj.Exported() && f.Pkg == c.P.Pkg("jsonrpc") && len(f.Params()) == 1 && f.ObjOf(call.Args[0]) == types.Object(f.Params()[0]) {
					c.Ok("MakeID-caller:"+f.Pkg.Name+"."+f.Name()+"(public wrapper)", f, call, "public re-export for callers that already hold a Go value; not on a wire decode path")
					continue
				}
				if f.Obj == decodeID && !okPI && !callsStrconv(f) && returnsInt64ID(f) {
					if v, why := c19DecodeIntegerIDs(c, f); v == "ok" {
						c.Ok("MakeID-caller:"+f.Name(), f, call, "integer ids are parsed by hand-written code, and evaluating it shows that every id in integer syntax within int64 is answered exactly before the float coercion is reached (%s)", why)
						continue
					}
					c.Undecided("MakeID-caller:"+f.Name(), f, call, "integer ids are parsed by hand-written code instead of strconv.ParseInt: whether that parser is exact for every int64 is not something this rule can decide")
					continue
				}
				c.Check(f.Obj == decodeID && okPI, "MakeID-caller:"+f.Name(), f, call, "the float coercion MakeID is used on wire input only as the fallback after an exact strconv.ParseInt of the same raw text failed (1.0, 1e3)")
			}
		}
	}
	c.Pin("MakeID callers", n, 1)
	// DecodeID: exact parse first
	d := c.Fn(pJ, "", "DecodeID")
	dg := d.Graph()
	okExact := false
	for _, pv := range dg.callVertices(parseInt) {
		call := d.CallsIn(dg.Node(pv), parseInt, false)[0]
		b, ok1 := d.ConstInt(call.Args[1])
		bits, ok2 := d.ConstInt(call.Args[2])
		if ok1 && ok2 && b == 10 && bits == 64 && len(d.NonRecvParams()) == 1 && d.Mentions(call.Args[0], d.NonRecvParams()[0]) {
			for _, r := range d.Returns() {
				if len(r.Results) == 2 {
					if ce, ok := ast.Unparen(r.Results[0]).(*ast.CallExpr); ok && d.Callee(ce) != nil && d.Callee(ce).Name() == "Int64ID" && dg.Dominates(pv, dg.VertexOf(r)) {
						okExact = true
					}
				}
			}
		}
	}
	// everything that is not an integer literal is decoded by the JSON decoder: an id leaves DecodeID as Int64ID of the
	// parsed integer, as MakeID of the Unmarshal-ed value, or as the zero ID (empty input / error) — never as a slice of
	// the raw text (a string id with an escape in it, "a\"b" or "\u00e9", would then differ from what every other
	// decoder makes of it, and the response no longer matches the request)
	for i, r := range d.Returns() {
		okForm := false
		switch len(r.Results) {
		case 1:
			if ce, ok := ast.Unparen(r.Results[0]).(*ast.CallExpr); ok && d.Callee(ce) == makeID && len(ce.Args) == 1 {
				// the argument was filled by Unmarshal(raw, &v)
				for _, uc := range d.AllCalls(d.Body, false) {
					if fn := d.Callee(uc); fn != nil && fn.Name() == "Unmarshal" && len(uc.Args) == 2 {
						if u, isU := ast.Unparen(uc.Args[1]).(*ast.UnaryExpr); isU && u.Op == token.AND && d.ObjOf(u.X) == d.ObjOf(ce.Args[0]) && d.ObjOf(u.X) != nil {
							okForm = true
						}
					}
				}
			}
		case 2:
			switch x := ast.Unparen(r.Results[0]).(type) {
			case *ast.CompositeLit:
				okForm = len(x.Elts) == 0
				if len(x.Elts) == 1 {
					// ID{value: s} with s filled by Unmarshal(raw, &s): what StringID(s) is
					val := x.Elts[0]
					if kv, isKV := val.(*ast.KeyValueExpr); isKV {
						val = kv.Value
					}
					for _, uc := range d.AllCalls(d.Body, false) {
						if fn := d.Callee(uc); fn != nil && fn.Name() == "Unmarshal" && len(uc.Args) == 2 {
							if u, isU := ast.Unparen(uc.Args[1]).(*ast.UnaryExpr); isU && u.Op == token.AND && d.ObjOf(u.X) != nil && d.ObjOf(u.X) == d.ObjOf(val) {
								okForm = true
							}
						}
					}
				}
			case *ast.CallExpr:
				okForm = d.Callee(x) != nil && d.Callee(x).Name() == "Int64ID"
			}
		}
		if !okForm && comparesWithBackslash(d) {
			c.Undecided("DecodeID:decoded-by-the-decoder#"+itoa(i), d, r, "an id is built from the raw text by hand-written code that looks at escapes (a comparison with '\\\\'): whether it agrees with the JSON decoder for every string is not something this rule can decide (got %s)", exprStr(r.Results[0]))
			continue
		}
		c.Check(okForm, "DecodeID:decoded-by-the-decoder#"+itoa(i), d, r, "DecodeID returns Int64ID(parsed), MakeID(unmarshalled value) or the zero ID (got %s)", exprStr(r.Results[0]))
	}
	evalV, evalWhy := "", ""
	if !okExact && !callsStrconv(d) && returnsInt64ID(d) {
		evalV, evalWhy = c19DecodeIntegerIDs(c, d)
	}
	if evalV == "ok" {
		c.Ok("DecodeID:exact-integer-path", d, nil, "integer ids are parsed by hand-written code instead of strconv.ParseInt; evaluated on concrete ids it agrees with ParseInt(raw, 10, 64): %s", evalWhy)
	} else if evalV == "bad" {
		c.Fail("DecodeID:exact-integer-path", d, nil, "integer ids are parsed by hand-written code that is not exact over the whole int64 range: %s", evalWhy)
	} else if !okExact && !callsStrconv(d) && returnsInt64ID(d) {
		c.Undecided("DecodeID:exact-integer-path", d, nil, "integer ids are parsed by hand-written code instead of strconv.ParseInt(raw, 10, 64): exactness over the whole int64 range is not decided here (evaluation on concrete ids stopped at %s)", evalWhy)
	} else {
		c.Check(okExact, "DecodeID:exact-integer-path", d, nil, "an id in integer syntax is parsed with strconv.ParseInt(raw, 10, 64) and wrapped by Int64ID without passing through float64")
	}
	// DecodeMessage uses DecodeID on the raw member
	dm := c.Fn(pJ, "", "DecodeMessage")
	okDM := false
	for _, call := range dm.CallsIn(dm.Body, decodeID, false) {
		if dm.IsField(call.Args[0], idF) {
			okDM = true
		}
	}
	c.Check(okDM, "DecodeMessage:id-via-DecodeID", dm, nil, "DecodeMessage obtains the id from DecodeID(msg.ID)")
	// float64 → int64 conversions exist only inside MakeID
	for _, f := range c.funcsWithLits(pJ) {
		inspectNoLit(f.Body, func(x ast.Node) {
			call, ok := x.(*ast.CallExpr)
			if !ok || len(call.Args) != 1 {
				return
			}
			tv, ok := f.Info().Types[call.Fun]
			if !ok || !tv.IsType() {
				return
			}
			to, _ := tv.Type.Underlying().(*types.Basic)
			from, _ := f.TypeOf(call.Args[0]).Underlying().(*types.Basic)
			if to != nil && from != nil && to.Kind() == types.Int64 && (from.Kind() == types.Float64 || from.Kind() == types.Float32) {
				c.Check(f.Obj == makeID, "float-to-int64:"+f.Name(), f, call, "a float64→int64 conversion in the JSON-RPC layer exists only in the MakeID fallback")
			}
		})
	}
	// the cancelled notification's requestId
	pre := c.Fn(pM, "canceller", "Preempt")
	okP := len(pre.CallsIn(pre.Body, decodeID, false)) == 1 && len(pre.CallsIn(pre.Body, makeID, false)) == 0
	c.Check(okP, "Preempt:requestId-exact", pre, nil, "the requestId of notifications/cancelled is decoded with DecodeID from its raw text")
}

func rulesC19(c *Ctx) {
	c.Rule("R-C19-12", "what goes on the wire is produced by the JSON encoder: every MarshalJSON method of the protocol types returns the output of a Marshal call (of a wire struct, a converted value or nested Marshal results) — no hand-assembled JSON text, whose escaping rules differ from JSON's (strconv.Quote writes \\x1b, \\a, \\U0001f600)", func() {
		n := 0
		isMarshalCall := func(f *Func, e ast.Expr) bool {
			ce, ok := ast.Unparen(e).(*ast.CallExpr)
			if !ok {
				return false
			}
			fn := f.Callee(ce)
			return fn != nil && (fn.Name() == "Marshal" || fn.Name() == "MarshalJSON" || fn.Name() == "MarshalIndent")
		}
		for _, rel := range []string{pM, pJ} {
			for _, f := range c.P.FuncsIn(rel) {
				if f.Obj == nil || f.Obj.Name() != "MarshalJSON" || f.Decl.Recv == nil {
					continue
				}
				c.touch(f)
				for i, r := range f.Returns() {
					var val ast.Expr
					switch len(r.Results) {
					case 1:
						val = r.Results[0]
					case 2:
						if isNilIdent(r.Results[0]) {
							continue // an error return
						}
						val = r.Results[0]
					default:
						continue
					}
					n++
					ok := isMarshalCall(f, val)
					if id, isID := ast.Unparen(val).(*ast.Ident); isID && !ok {
						obj := f.ObjOf(id)
						ws := f.writesToVar(f.Body, obj, false)
						ok = len(ws) > 0
						for _, w := range Writes(f.Body, false) {
							if f.ObjOf(w.LHS) != obj {
								continue
							}
							as, isAs := w.Stmt.(*ast.AssignStmt)
							if !isAs || len(as.Rhs) != 1 || !isMarshalCall(f, as.Rhs[0]) {
								ok = false
							}
						}
					}
					c.Check(ok, "MarshalJSON:encoder-output:"+f.Name()+"#"+itoa(i), f, r, "the bytes returned are the result of a Marshal call (got %s)", exprStr(val))
				}
			}
		}
		c.Pin("value returns of MarshalJSON methods", n, 15)
	})

	c.Import("R-C19-11", "decoding never panics on malformed framing: a line that is not a message or a batch ends in an error before any element of the decoded slice is touched, an empty batch is refused, an undecodable element fails the whole batch", "C02", "R-C02-5", func(k string) bool {
		return strings.HasPrefix(k, "ioConn.Read:readBatch") || strings.HasPrefix(k, "readBatch:") || strings.Contains(k, "readBatch")
	})
	c.Rule("R-C19-1", "request ids keep their type and exact integer value through decode", func() { idExactnessRule(c) })

	c.Rule("R-C19-2", "encode and decode agree on the JSON-RPC envelope: same members, same mapping to API fields; Message has exactly the two implementations", func() {
		wc, wdc := c.P.LookupType(pJ, "wireCombined"), c.P.LookupType(pJ, "wireDecode")
		c.Need(wc != nil && wdc != nil, "wire structs")
		keys := func(n *types.Named) []string {
			st := n.Underlying().(*types.Struct)
			var ks []string
			for i := 0; i < st.NumFields(); i++ {
				k, _ := jsonTag(st.Tag(i), st.Field(i).Name())
				ks = append(ks, k)
			}
			sort.Strings(ks)
			return ks
		}
		a, b := keys(wc), keys(wdc)
		c.Check(strings.Join(a, ",") == strings.Join(b, ","), "wire-structs:same-members", nil, nil, "wireCombined %v and wireDecode %v have the same JSON members", a, b)
		// marshal side
		marshalSets := func(typ string) map[string]string {
			f := c.Fn(pJ, typ, "marshal")
			out := map[string]string{}
			for _, w := range Writes(f.Body, false) {
				if s, ok := ast.Unparen(w.LHS).(*ast.SelectorExpr); ok && w.RHS != nil {
					// members of the wire struct only (other locals may have fields of their own)
					if t := f.TypeOf(s.X); t != nil {
						if pt, isP := t.(*types.Pointer); isP {
							t = pt.Elem()
						}
						if namedOf(t) != wc {
							continue
						}
					}
					out[s.Sel.Name] = canonExpr(f, w.RHS)
					// a value computed in place from the message's own field (the conversion written out instead of called)
					if id, isID := ast.Unparen(w.RHS).(*ast.Ident); isID && s.Sel.Name == "Error" {
						if _, isVar := f.ObjOf(id).(*types.Var); isVar && len(f.FieldRefs(f.Body, c.Field(pJ, "Response", "Error"), false)) > 0 {
							out[s.Sel.Name] = "toWireError(Response.Error)"
						}
					}
				}
			}
			return out
		}
		rq, rs := marshalSets("Request"), marshalSets("Response")
		c.Check(rq["ID"] == "Request.ID.value" && rq["Method"] == "Request.Method" && rq["Params"] == "Request.Params" && len(rq) == 3, "Request.marshal:fields", nil, nil, "a request is encoded from exactly ID, Method, Params (%v)", rq)
		c.Check(rs["ID"] == "Response.ID.value" && rs["Result"] == "Response.Result" && rs["Error"] == "toWireError(Response.Error)" && len(rs) == 3, "Response.marshal:fields", nil, nil, "a response is encoded from exactly ID, Result, Error (%v)", rs)
		// decode side: composite literals in DecodeMessage
		dm := c.Fn(pJ, "", "DecodeMessage")
		got := map[string]map[string]string{}
		inspectNoLit(dm.Body, func(n ast.Node) {
			cl, ok := n.(*ast.CompositeLit)
			if !ok {
				return
			}
			nt := namedOf(dm.TypeOf(cl))
			if nt == nil || (nt.Obj().Name() != "Request" && nt.Obj().Name() != "Response") {
				return
			}
			m := map[string]string{}
			for _, el := range cl.Elts {
				if kv, ok := el.(*ast.KeyValueExpr); ok {
					m[exprStr(kv.Key)] = canonExpr(dm, kv.Value)
				}
			}
			got[nt.Obj().Name()] = m
		})
		c.Check(got["Request"]["ID"] == "local(jsonrpc2.ID)" && got["Request"]["Method"] == "local(string)" && got["Request"]["Params"] == "wireDecode.Params" && len(got["Request"]) == 3, "DecodeMessage:request-fields", dm, nil, "a decoded request takes ID, Method, Params from the wire (%v)", got["Request"])
		c.Check(got["Response"]["ID"] == "local(jsonrpc2.ID)" && got["Response"]["Result"] == "wireDecode.Result", "DecodeMessage:response-fields", dm, nil, "a decoded response takes ID and Result from the wire (%v)", got["Response"])
		okErr := false
		for _, w := range Writes(dm.Body, false) {
			if s, ok := ast.Unparen(w.LHS).(*ast.SelectorExpr); ok && s.Sel.Name == "Error" && w.RHS != nil && canonExpr(dm, w.RHS) == "wireDecode.Error" {
				okErr = true
			}
		}
		c.Check(okErr, "DecodeMessage:response-error", dm, nil, "the wire error (code, message, data) is attached unchanged")
		// toWireError keeps a *WireError as is and the code of a wrapped one
		tw := c.Fn(pJ, "", "toWireError")
		keepsSelf, keepsCode := false, false
		for _, r := range tw.Returns() {
			if len(r.Results) == 1 && isNamedType(tw.TypeOf(r.Results[0]), modPath+"/"+pJ, "WireError") {
				// the value returned unchanged is the type-asserted parameter
				if v := tw.ObjOf(r.Results[0]); v != nil && (v == typeAssertVar(tw, pJ, "WireError") || tw.isTypeSwitchVar(v)) {
					keepsSelf = true // (in `switch e := err.(type) { case *WireError: return e }` the clause's e is the asserted value)
				}
			}
		}
		for _, w := range Writes(tw.Body, false) {
			ls, ok1 := ast.Unparen(w.LHS).(*ast.SelectorExpr)
			if w.RHS == nil || !ok1 {
				continue
			}
			rs, ok2 := ast.Unparen(w.RHS).(*ast.SelectorExpr)
			if ok2 && ls.Sel.Name == "Code" && rs.Sel.Name == "Code" && isNamedType(tw.TypeOf(ls.X), modPath+"/"+pJ, "WireError") && isNamedType(tw.TypeOf(rs.X), modPath+"/"+pJ, "WireError") {
				keepsCode = true
			}
		}
		c.Check(keepsSelf && keepsCode, "toWireError:code-preserved", tw, nil, "a *WireError is sent as is; a wrapped one keeps its code")
		// implementations of Message
		msgI := c.P.LookupType(pJ, "Message")
		var impls []string
		for _, rel := range sdkPkgs {
			pk := c.P.Pkg(rel)
			if pk == nil {
				continue
			}
			sc := pk.Types.Scope()
			for _, name := range sc.Names() {
				if tn, ok := sc.Lookup(name).(*types.TypeName); ok && !tn.IsAlias() {
					if nt, ok := tn.Type().(*types.Named); ok && !types.IsInterface(nt) {
						if types.Implements(types.NewPointer(nt), msgI.Underlying().(*types.Interface)) {
							declares := false // types that merely embed *Request are not additional wire shapes
							for i := 0; i < nt.NumMethods(); i++ {
								if nt.Method(i).Name() == "marshal" {
									declares = true
								}
							}
							if declares {
								impls = append(impls, nt.Obj().Name())
							}
						}
					}
				}
			}
		}
		sort.Strings(impls)
		c.Check(strings.Join(impls, ",") == "Request,Response", "Message:closed-set", nil, nil, "Message is implemented by exactly *Request and *Response (%v)", impls)
	})

	contentI := c.P.LookupType(pM, "Content")
	c.Need(contentI != nil, "mcp.Content")
	var contentTypes []*types.Named
	{
		sc := c.P.Pkg(pM).Types.Scope()
		for _, name := range sc.Names() {
			if tn, ok := sc.Lookup(name).(*types.TypeName); ok && !tn.IsAlias() {
				if nt, ok := tn.Type().(*types.Named); ok && !types.IsInterface(nt) && types.Implements(types.NewPointer(nt), contentI.Underlying().(*types.Interface)) {
					contentTypes = append(contentTypes, nt)
				}
			}
		}
	}
	// the struct type marshalled by a MarshalJSON body and the constant type tag
	marshalInfo := func(nt *types.Named) (f *Func, tag string, st *types.Struct, lit *ast.CompositeLit) {
		f = c.P.FuncOf(c.P.LookupFuncObj(pM, nt.Obj().Name(), "MarshalJSON"))
		if f == nil {
			return
		}
		c.touch(f)
		inspectNoLit(f.Body, func(n ast.Node) {
			cl, ok := n.(*ast.CompositeLit)
			if !ok {
				return
			}
			s, isS := f.TypeOf(cl).Underlying().(*types.Struct)
			if !isS {
				return
			}
			for _, el := range cl.Elts {
				if kv, ok := el.(*ast.KeyValueExpr); ok && exprStr(kv.Key) == "Type" {
					if v, ok := f.ConstString(kv.Value); ok {
						tag, st, lit = v, s, cl
					}
				}
			}
		})
		return
	}

	c.Rule("R-C19-3", "content kinds: each kind's type tag has a decoder case that builds the same Go type, and every field the encoder reads is restored by fromWire", func() {
		cfw := c.Fn(pM, "", "contentFromWire")
		cases := map[string]string{}
		inspectNoLit(cfw.Body, func(n ast.Node) {
			cc, ok := n.(*ast.CaseClause)
			if !ok {
				return
			}
			for _, e := range caseValues(cc) {
				tag, ok := cfw.ConstString(e)
				if !ok {
					continue
				}
				for _, st := range cc.Body {
					if as, ok := st.(*ast.AssignStmt); ok && len(as.Rhs) == 1 {
						if ce, ok := ast.Unparen(as.Rhs[0]).(*ast.CallExpr); ok && cfw.BuiltinName(ce) == "new" {
							cases[tag] = exprStr(ce.Args[0])
						}
					}
				}
			}
		})
		c.Pin("content kinds", len(contentTypes), 7)
		for _, nt := range contentTypes {
			f, tag, st, lit := marshalInfo(nt)
			name := nt.Obj().Name()
			if !c.Check(f != nil && tag != "", name+":constant-type-tag", f, nil, "%s.MarshalJSON emits a constant type tag (%q)", name, tag) {
				continue
			}
			c.Check(cases[tag] == name, name+":decoder-case", cfw, nil, "contentFromWire has case %q constructing %s (got %q)", tag, name, cases[tag])
			// fields read by MarshalJSON vs restored by fromWire
			fw := c.P.FuncOf(c.P.LookupFuncObj(pM, name, "fromWire"))
			if fw == nil {
				c.Fail(name+":fromWire", nil, nil, "no fromWire")
				continue
			}
			c.touch(fw)
			read := map[string]bool{}
			recv := f.Recv()
			ast.Inspect(lit, func(n ast.Node) bool {
				if s, ok := n.(*ast.SelectorExpr); ok && f.ObjOf(s.X) == types.Object(recv) {
					read[s.Sel.Name] = true
				}
				return true
			})
			// locals derived from receiver fields (data := c.Data)
			for _, w := range Writes(f.Body, false) {
				if s, ok := ast.Unparen(w.RHS).(*ast.SelectorExpr); ok && w.RHS != nil && f.ObjOf(s.X) == types.Object(recv) {
					read[s.Sel.Name] = true
				}
			}
			written := map[string]bool{}
			for _, w := range Writes(fw.Body, false) {
				if s, ok := ast.Unparen(w.LHS).(*ast.SelectorExpr); ok && fw.ObjOf(s.X) == types.Object(fw.Recv()) {
					written[s.Sel.Name] = true
				}
			}
			var missing []string
			for k := range read {
				if !written[k] && !(name == "ToolResultContent" && k == "Content") { // nested content is rebuilt by contentFromWire
					missing = append(missing, k)
				}
			}
			c.Check(len(missing) == 0, name+":fields-round-trip", fw, nil, "every field encoded by MarshalJSON is restored by fromWire (missing: %v)", missing)
			// wire keys of the encoder's struct exist with the same spelling in wireContent
			wcT := c.P.LookupType(pM, "wireContent").Underlying().(*types.Struct)
			wkeys := map[string]bool{}
			for i := 0; i < wcT.NumFields(); i++ {
				k, _ := jsonTag(wcT.Tag(i), wcT.Field(i).Name())
				wkeys[k] = true
			}
			var bad []string
			for i := 0; i < st.NumFields(); i++ {
				k, _ := jsonTag(st.Tag(i), st.Field(i).Name())
				if !wkeys[k] {
					bad = append(bad, k)
				}
			}
			c.Check(len(bad) == 0, name+":wire-keys-known-to-decoder", f, nil, "every member the encoder writes is a member the shared decode struct reads (unknown: %v)", bad)
		}
	})

	c.Rule("R-C19-4", "required members are never omitted or null: text, data, content arrays and list arrays are encoded without omitempty, and producers normalise nil arrays before sending", func() {
		required := map[string][]string{"TextContent": {"text"}, "ImageContent": {"data"}, "AudioContent": {"data"}, "ToolResultContent": {"content"}, "ToolUseContent": {"input"}}
		for _, nt := range contentTypes {
			name := nt.Obj().Name()
			f, _, st, _ := marshalInfo(nt)
			if st == nil {
				continue
			}
			for _, req := range required[name] {
				found, omit := false, false
				var ftype types.Type
				for i := 0; i < st.NumFields(); i++ {
					k, o := jsonTag(st.Tag(i), st.Field(i).Name())
					if k == req {
						found, omit, ftype = true, o, st.Field(i).Type()
					}
				}
				c.Check(found && !omit, name+":required-"+req, f, nil, "the struct that %s.MarshalJSON encodes carries %q without omitempty", name, req)
				// nested content must not be re-encoded through a struct that drops required members
				if name == "ToolResultContent" && req == "content" && ftype != nil {
					el := ftype
					if sl, ok := ftype.Underlying().(*types.Slice); ok {
						el = sl.Elem()
					}
					viaWire := namedOf(el) != nil && namedOf(el).Obj().Name() == "wireContent"
					c.Check(!viaWire, name+":nested-content-not-via-wireContent", f, nil, "nested blocks are embedded as their own encoding (%s), not re-encoded through wireContent whose text/data members are omitempty", el)
				}
			}
			// nil slices/maps normalised before encoding
			if name == "ImageContent" || name == "AudioContent" || name == "ToolUseContent" {
				norm := false
				for _, w := range Writes(f.Body, false) {
					if cl, ok := ast.Unparen(w.RHS).(*ast.CompositeLit); ok && w.RHS != nil && len(cl.Elts) == 0 {
						g := f.Graph()
						if hasAtom(g.GuardsAt(g.VertexOf(w.Stmt)), func(a Atom) bool { return AtomSaysNil(a, true, func(ast.Expr) bool { return true }) }) {
							norm = true
						}
					}
				}
				c.Check(norm, name+":nil-normalised", f, nil, "a nil data/input value is replaced by an empty one before encoding (no JSON null)")
			}
			if name == "ToolResultContent" {
				okMake := false
				for _, w := range Writes(f.Body, false) {
					if ce, ok := ast.Unparen(w.RHS).(*ast.CallExpr); ok && w.RHS != nil && f.BuiltinName(ce) == "make" {
						okMake = true
					}
				}
				c.Check(okMake, name+":content-array-non-nil", f, nil, "the nested content array is allocated with make (never nil)")
			}
		}
		// list results: required arrays have no omitempty
		lists := map[string]string{"ListToolsResult": "tools", "ListPromptsResult": "prompts", "ListResourcesResult": "resources", "ListResourceTemplatesResult": "resourceTemplates", "ListRootsResult": "roots", "GetPromptResult": "messages", "ReadResourceResult": "contents", "CompletionResultDetails": "values"}
		for typ, key := range lists {
			nt := c.P.LookupType(pM, typ)
			if !c.Check(nt != nil, typ+":exists", nil, nil, "type %s", typ) {
				continue
			}
			st := nt.Underlying().(*types.Struct)
			ok := false
			for i := 0; i < st.NumFields(); i++ {
				k, o := jsonTag(st.Tag(i), st.Field(i).Name())
				if k == key && !o {
					ok = true
				}
			}
			c.Check(ok, typ+":required-"+key, nil, nil, "%s.%s has no omitempty", typ, key)
		}
		// producers
		type prod struct{ fn, field, guardMust string }
		for _, p := range []prod{{"callTool", "Content", ""}, {"getPrompt", "Messages", ""}, {"complete", "Values", ""}} {
			f := c.Fn(pM, "Server", p.fn)
			g := f.Graph()
			ok := false
			for _, w := range Writes(f.Body, false) {
				s, isS := ast.Unparen(w.LHS).(*ast.SelectorExpr)
				if !isS || s.Sel.Name != p.field || w.RHS == nil {
					continue
				}
				cl, isCL := ast.Unparen(w.RHS).(*ast.CompositeLit)
				if !isCL || len(cl.Elts) != 0 {
					continue
				}
				guards := g.GuardsAt(g.VertexOf(w.Stmt))
				// exactly: <result>.<field> == nil  [&& resultType != input_required]
				nilTest := hasAtom(guards, func(a Atom) bool {
					return AtomSaysNil(a, true, func(e ast.Expr) bool {
						sel, ok := ast.Unparen(e).(*ast.SelectorExpr)
						return ok && sel.Sel.Name == p.field
					})
				})
				// the branch condition contains nothing but that nil test, error/nil-result tests and the input-required exclusion
				onlyKnown := true
				if ifs, ok := f.Enclosing(w.Stmt, func(n ast.Node) bool { _, ok := n.(*ast.IfStmt); return ok }).(*ast.IfStmt); ok {
					var leaves []Atom
					splitAtoms(ifs.Cond, true, &leaves)
					for _, a := range leaves {
						if b, isB := a.E.(*ast.BinaryExpr); isB && b.Op == token.LAND {
							continue
						}
						str := exprStr(a.E)
						if _, _, isNil := NilTest(a.E); isNil {
							continue
						}
						if strings.Contains(str, "resultType") && strings.Contains(str, "resultTypeInputRequired") {
							continue
						}
						onlyKnown = false
					}
				}
				ok = nilTest && onlyKnown
				// ... and the normalised value is the one returned: the copy that was patched is assigned back to the result
				// variable on every path to the return (or the patch is applied to the result variable itself)
				root := ast.Unparen(s.X)
				for {
					if sel2, isSel := root.(*ast.SelectorExpr); isSel {
						root = ast.Unparen(sel2.X)
						continue
					}
					break
				}
				base := f.ObjOf(root)
				var resVar types.Object
				for _, r := range f.Returns() {
					if len(r.Results) == 2 {
						if o := f.ObjOf(r.Results[0]); o != nil {
							resVar = o
						}
					}
				}
				back := base != nil && base == resVar
				if !back && base != nil && resVar != nil {
					v := g.VertexOf(w.Stmt)
					back, _ = g.MustPass(v, g.Exits, func(u int) bool {
						as, isAs := g.Node(u).(*ast.AssignStmt)
						if !isAs || len(as.Lhs) != 1 || len(as.Rhs) != 1 || f.ObjOf(as.Lhs[0]) != resVar {
							return false
						}
						rhs := ast.Unparen(as.Rhs[0])
						if u, isU := rhs.(*ast.UnaryExpr); isU && u.Op == token.AND {
							rhs = ast.Unparen(u.X)
						}
						return f.ObjOf(rhs) == base
					})
				}
				c.Check(back, p.fn+":normalised-copy-is-returned", f, w.Stmt, "the value whose nil %s was replaced is the one handed back (a patched copy that is then dropped sends null after all)", p.field)
			}
			if !ok {
				// delegated: the empty array is installed by a literal handed to a helper together with the nil test of the
				// field (`h(res, res.Content == nil, func(r) { r.Content = []Content{} })`) — what the helper makes of the two is
				// beyond this rule
				delegated := false
				for _, l := range f.AllLits() {
					for _, w := range Writes(l.Body, false) {
						s2, isS := ast.Unparen(w.LHS).(*ast.SelectorExpr)
						cl, isCL := ast.Unparen(w.RHS).(*ast.CompositeLit)
						if w.RHS == nil || !isS || s2.Sel.Name != p.field || !isCL || len(cl.Elts) != 0 {
							continue
						}
						if call, isCall := l.Parent.ParentOf(l.Lit).(*ast.CallExpr); isCall {
							for _, a := range call.Args {
								if x, twn, isNil := NilTest(a); isNil && twn {
									if sel, isSel := ast.Unparen(x).(*ast.SelectorExpr); isSel && sel.Sel.Name == p.field {
										delegated = true
									}
								}
							}
						}
					}
				}
				if delegated {
					c.Undecided(p.fn+":nil-"+p.field+"-normalised", f, nil, "the replacement of a nil %s is delegated to a helper that receives the nil test and the assignment as arguments: not decided here", p.field)
					continue
				}
			}
			c.Check(ok, p.fn+":nil-"+p.field+"-normalised", f, nil, "%s replaces a nil %s by an empty array exactly when it is nil (and the result is not an input-required one): a wider or different condition lets \"%s\":null onto the wire", p.fn, p.field, strings.ToLower(p.field))
		}
		rr := c.Fn(pM, "Server", "readResource")
		rg := rr.Graph()
		okRR := false
		for _, r := range rr.Returns() {
			if len(r.Results) == 2 && !isNilIdent(r.Results[1]) {
				if hasAtom(rg.GuardsAt(rg.VertexOf(r)), func(a Atom) bool {
					return AtomSaysNil(a, true, func(e ast.Expr) bool {
						s, ok := ast.Unparen(e).(*ast.SelectorExpr)
						return ok && s.Sel.Name == "Contents"
					})
				}) {
					okRR = true
				}
			}
		}
		c.Check(okRR, "readResource:nil-contents-rejected", rr, nil, "a read handler returning nil contents is rejected instead of being sent as null")
		for _, fn := range []string{"listTools", "listPrompts", "listResources", "listResourceTemplates"} {
			f := c.Fn(pM, "Server", fn)
			ok := false
			for _, l := range f.AllLits() {
				for _, w := range Writes(l.Body, false) {
					if _, nonNil := l.emptySlice(w.RHS); nonNil {
						lg := l.Graph()
						if lg.VertexOf(w.Stmt) == lg.Entry {
							ok = true
						}
					}
				}
			}
			c.Check(ok, fn+":empty-array-first", f, nil, "the page setter starts by assigning an empty (non-nil) array")
		}
		lr := c.Fn(pM, "Client", "listRoots")
		okLR := false
		for _, w := range Writes(lr.Body, false) {
			if cl, isCL := ast.Unparen(w.RHS).(*ast.CompositeLit); isCL && w.RHS != nil && len(cl.Elts) == 0 {
				okLR = true
			}
		}
		c.Check(okLR, "listRoots:nil-normalised", lr, nil, "roots/list never returns a null array")
	})

	c.Rule("R-C19-5", "wire decoding of MCP values is case-sensitive: no encoding/json decode into a struct-bearing target in the protocol packages", func() {
		n, nStruct := 0, 0
		for _, rel := range []string{pM, pJ, "jsonrpc"} {
			if c.P.Pkg(rel) == nil {
				continue
			}
			for _, f := range c.funcsWithLits(rel) {
				for _, call := range f.AllCalls(f.Body, false) {
					fn := f.Callee(call)
					if fn == nil || fn.Pkg() == nil || fn.Pkg().Path() != "encoding/json" {
						continue
					}
					var target ast.Expr
					switch fn.FullName() {
					case "encoding/json.Unmarshal":
						target = call.Args[1]
					case "(*encoding/json.Decoder).Decode":
						target = call.Args[0]
					default:
						continue
					}
					n++
					t := f.TypeOf(target)
					has := typeHasStruct(t, map[types.Type]bool{}, 0)
					if has {
						nStruct++
					}
					c.Check(!has, "encoding/json-decode:"+f.Name()+":"+exprStr(target), f, call, "encoding/json matches struct fields case-insensitively; target %s %s", t, map[bool]string{true: "contains struct fields: use internal/json (DontMatchCaseInsensitiveStructFields)", false: "has no struct fields"}[has])
				}
			}
		}
		if n == 0 {
			c.Ok("encoding/json-decode:none", nil, nil, "no encoding/json decode call in the protocol packages")
		}
		// positive population: the case-sensitive decoder is what the protocol code uses
		ij := c.FnObj(pIJ, "", "Unmarshal")
		m := 0
		for _, rel := range []string{pM, pJ} {
			for _, f := range c.funcsWithLits(rel) {
				m += len(f.CallsIn(f.Body, ij, false))
			}
		}
		c.Pin("internal/json.Unmarshal call sites", m, 30)
		nd := c.Fn(pIJ, "", "NewDecoder")
		okCS := false
		for _, call := range nd.AllCalls(nd.Body, false) {
			if fn := nd.Callee(call); fn != nil && fn.Name() == "DontMatchCaseInsensitiveStructFields" {
				okCS = true
			}
		}
		c.Check(okCS, "internal/json:case-sensitive", nd, nil, "internal/json decoders call DontMatchCaseInsensitiveStructFields")
	})

	c.Rule("R-C19-6", "framing carries any payload unchanged: SSE events are one data line closed by a blank line and read without a line-length limit; ndjson writes append exactly one newline under the write lock; encoders do not HTML-escape", func() {
		we := c.Fn(pM, "", "writeEvent")
		var seq []string
		for _, call := range we.AllCalls(we.Body, false) {
			fn := we.Callee(call)
			if fn == nil {
				continue
			}
			if fn.Name() == "WriteString" {
				if s, ok := we.ConstString(call.Args[0]); ok {
					seq = append(seq, s)
				}
			}
			if fn.Name() == "Write" && strings.Contains(exprStr(call.Args[0]), "Data") {
				seq = append(seq, "<payload>")
			}
		}
		// (other fields — event, id, retry — may be written in front of it in any fashion; the record ends with the data line)
		tail := seq
		if len(tail) > 3 {
			tail = tail[len(tail)-3:]
		}
		nData := 0
		for _, x := range seq {
			if x == "data: " {
				nData++
			}
		}
		c.Check(strings.Join(tail, "|") == "data: |<payload>|\n\n" && nData == 1, "writeEvent:frame", we, nil, "writeEvent emits \"data: \" + payload + blank line (%q)", seq)
		se := c.Fn(pM, "", "scanEvents")
		bounded := ""
		ast.Inspect(se.Body, func(n ast.Node) bool {
			if call, ok := n.(*ast.CallExpr); ok {
				if fn := se.Callee(call); fn != nil && fn.FullName() == "bufio.NewScanner" {
					bounded = se.At(call)
				}
			}
			return true
		})
		okRB := false
		ast.Inspect(se.Body, func(n ast.Node) bool {
			if call, ok := n.(*ast.CallExpr); ok {
				if fn := se.Callee(call); fn != nil && (fn.FullName() == "(*bufio.Reader).ReadBytes" || fn.FullName() == "(*bufio.Reader).ReadString") {
					okRB = true
				}
			}
			return true
		})
		for _, g0 := range c.pkgClosure(se) {
			ast.Inspect(g0.Body, func(n ast.Node) bool {
				if call, ok := n.(*ast.CallExpr); ok {
					if fn := g0.Callee(call); fn != nil {
						switch fn.FullName() {
						case "bufio.NewScanner":
							bounded = g0.At(call)
						case "(*bufio.Reader).ReadBytes", "(*bufio.Reader).ReadString":
							okRB = true
						}
					}
				}
				return true
			})
		}
		// ReadSlice / ReadLine stop at the reader's buffer size: a line longer than that comes back as ErrBufferFull /
		// isPrefix, and code that does not look at that signal has a line limit just like a Scanner
		if bounded == "" && !okRB {
			usesSlice, handlesFull, usesLine, handlesPrefix := "", false, "", false
			for _, g0 := range c.pkgClosure(se) {
				ast.Inspect(g0.Body, func(n ast.Node) bool {
					switch x := n.(type) {
					case *ast.SelectorExpr:
						if o := g0.ObjOf(x.Sel); o != nil && o.Pkg() != nil && o.Pkg().Path() == "bufio" && o.Name() == "ErrBufferFull" {
							handlesFull = true
						}
					case *ast.AssignStmt:
						if len(x.Rhs) == 1 {
							if call, ok := ast.Unparen(x.Rhs[0]).(*ast.CallExpr); ok {
								if fn := g0.Callee(call); fn != nil && fn.FullName() == "(*bufio.Reader).ReadLine" {
									usesLine = g0.At(call)
									if len(x.Lhs) == 3 {
										if id, isID := x.Lhs[1].(*ast.Ident); isID && id.Name != "_" {
											handlesPrefix = true
										}
									}
								}
							}
						}
					case *ast.CallExpr:
						if fn := g0.Callee(x); fn != nil && fn.FullName() == "(*bufio.Reader).ReadSlice" {
							usesSlice = g0.At(x)
						}
					}
					return true
				})
			}
			if usesSlice != "" && !handlesFull {
				bounded = usesSlice + " (ReadSlice without a test for bufio.ErrBufferFull)"
			}
			if usesLine != "" && !handlesPrefix {
				bounded = usesLine + " (ReadLine ignoring isPrefix)"
			}
		}
		if bounded == "" && !okRB {
			c.Undecided("scanEvents:unbounded-lines", se, nil, "lines are read by something other than ReadBytes/ReadString and not by a bufio.Scanner (ReadSlice/ReadLine with a spill buffer?): whether lines of any length survive is not decided here")
		} else {
			c.Check(bounded == "" && okRB, "scanEvents:unbounded-lines", se, nil, "the SSE reader reads lines of any length (bufio.Reader.ReadBytes); a bufio.Scanner (64 KiB token limit) would turn every large message into a dead stream %s", bounded)
		}
		iw := c.Fn(pM, "ioConn", "Write")
		g := iw.Graph()
		enc := c.FnObj(pJ, "", "EncodeMessage")
		nl := 0
		for _, w := range Writes(iw.Body, false) {
			if ce, ok := ast.Unparen(w.RHS).(*ast.CallExpr); ok && w.RHS != nil && iw.BuiltinName(ce) == "append" && len(ce.Args) == 2 && exprStr(ce.Args[1]) == "'\\n'" {
				nl++
				c.Check(iw.heldLocal(w.Stmt)["ioConn.writeMu"], "ioConn.Write:newline-under-lock#"+itoa(nl), iw, w.Stmt, "the delimiter is appended with writeMu held")
			}
		}
		// frames of concurrent writers do not interleave: the bytes go out while the writer's lock is held
		for i, call := range iw.AllCalls(iw.Body, false) {
			if sel, ok := ast.Unparen(call.Fun).(*ast.SelectorExpr); ok && sel.Sel.Name == "Write" && iw.IsField(sel.X, c.Field(pM, "ioConn", "rwc")) {
				c.Check(iw.heldLocal(call)["ioConn.writeMu"], "ioConn.Write:bytes-written-under-lock#"+itoa(i), iw, call, "rwc.Write runs with writeMu held")
			}
		}
		sw := c.Fn(pM, "sseServerConn", "Write")
		weObj := c.FnObj(pM, "", "writeEvent")
		nsw := 0
		for _, call := range sw.CallsIn(sw.Body, weObj, false) {
			nsw++
			c.Check(sw.heldLocal(call)["SSEServerTransport.mu"], "sseServerConn.Write:event-written-under-lock", sw, call, "writeEvent runs with the transport's mutex held (held: %v): two responses written at once would otherwise interleave their event lines", keysOf(sw.heldLocal(call)))
		}
		c.Pin("sseServerConn.Write event writes", nsw, 1)
		ev := g.callVertices(enc)
		c.Check(nl >= 1 && len(ev) == 1, "ioConn.Write:one-newline-per-message", iw, nil, "each encoded message gets exactly one '\\n' appended (%d append sites across the three write paths)", nl)
		// per write path: what was encoded is written, after exactly one delimiter was appended to it
		mm := c.FnObj(pM, "", "marshalMessages")
		rwcF := c.Field(pM, "ioConn", "rwc")
		nPath := 0
		for _, ecall := range iw.AllCalls(iw.Body, false) {
			if !iw.IsCallTo(ecall, enc) && !iw.IsCallTo(ecall, mm) {
				continue
			}
			as, isAs := iw.ParentOf(ecall).(*ast.AssignStmt)
			if !isAs || len(as.Lhs) != 2 {
				continue
			}
			nPath++
			d, eerr := iw.ObjOf(as.Lhs[0]), iw.ObjOf(as.Lhs[1])
			evx := g.VertexOf(ecall)
			// the buffer and the locals it is handed on to by plain copies (the parameter of an expanded helper)
			bufs := map[types.Object]bool{d: true}
			for changed := true; changed; {
				changed = false
				for _, w := range Writes(iw.Body, false) {
					if w.RHS == nil {
						continue
					}
					if id, isID := ast.Unparen(w.RHS).(*ast.Ident); isID && bufs[iw.ObjOf(id)] {
						if o := iw.ObjOf(w.LHS); o != nil && !bufs[o] {
							if _, lhsID := ast.Unparen(w.LHS).(*ast.Ident); lhsID {
								bufs[o] = true
								changed = true
							}
						}
					}
				}
			}
			isWrite := func(v int) bool {
				for _, call := range iw.AllCalls(g.Node(v), false) {
					if sel, ok := ast.Unparen(call.Fun).(*ast.SelectorExpr); ok && sel.Sel.Name == "Write" && iw.IsField(sel.X, rwcF) && len(call.Args) == 1 && bufs[iw.ObjOf(call.Args[0])] {
						return true
					}
				}
				return false
			}
			isNL := func(v int) bool {
				for _, w := range Writes(g.Node(v), false) {
					if ce, ok := ast.Unparen(w.RHS).(*ast.CallExpr); ok && w.RHS != nil && bufs[iw.ObjOf(w.LHS)] && iw.BuiltinName(ce) == "append" && len(ce.Args) == 2 && bufs[iw.ObjOf(ce.Args[0])] && exprStr(ce.Args[1]) == "'\\n'" {
						return true
					}
				}
				return false
			}
			var wvs, nls []int
			for v := 0; v < g.N; v++ {
				if g.Node(v) != nil && isWrite(v) {
					wvs = append(wvs, v)
				}
				if g.Node(v) != nil && isNL(v) {
					nls = append(nls, v)
				}
			}
			ok := len(wvs) == 1 && len(nls) == 1
			if ok {
				p1, _ := g.MustPass(evx, wvs, isNL)
				ok = p1
				// when encoding succeeded the bytes always reach the stream
				reached := false
				for _, t := range g.edgesWhere(func(a Atom) bool { return AtomSaysNil(a, true, func(e ast.Expr) bool { return iw.ObjOf(e) == eerr }) }) {
					if g.Dominates(evx, t) && !g.writtenBetween(eerr, evx, t) && g.allPathsPass(t, isWrite) {
						reached = true
					}
				}
				ok = ok && reached
			}
			c.Check(ok, "ioConn.Write:encode-delimit-write#"+itoa(nPath), iw, ecall, "the bytes produced here get exactly one '\\n' and are then written to the stream on every path on which encoding succeeded (%d write, %d delimiter sites for this buffer)", len(wvs), len(nls))
		}
		c.Pin("encode→write paths in ioConn.Write", nPath, 3)
		for _, call := range iw.AllCalls(iw.Body, false) {
			if fn := iw.Callee(call); fn != nil && fn.Name() == "Write" && strings.Contains(exprStr(call.Fun), "rwc") {
				c.Check(iw.heldLocal(call)["ioConn.writeMu"], "ioConn.Write:write-under-lock", iw, call, "the stream write happens under writeMu (messages cannot interleave)")
			}
		}
		jm := c.Fn(pJ, "", "jsonMarshal")
		okEsc := false
		for _, call := range jm.AllCalls(jm.Body, false) {
			if fn := jm.Callee(call); fn != nil && fn.Name() == "SetEscapeHTML" && exprStr(call.Args[0]) == "false" {
				okEsc = true
			}
		}
		c.Check(okEsc, "jsonMarshal:no-html-escaping", jm, nil, "the message encoder disables HTML escaping (payload bytes are preserved)")
	})

	c.Rule("R-C19-13", "a payload is never a view into a reader's internal buffer: what bufio.Reader.ReadSlice / ReadLine / Peek or Scanner.Bytes hand out is valid only until the next read, so it (or a sub-slice, trimmed or cut piece of it) is copied before it is stored in a field or collected in a slice — an event that keeps such a view is overwritten by the bytes of the events that follow it", func() {
		borrowed := map[string]bool{"(*bufio.Reader).ReadSlice": true, "(*bufio.Reader).ReadLine": true, "(*bufio.Reader).Peek": true, "(*bufio.Scanner).Bytes": true}
		aliasing := map[string]bool{"bytes.TrimSpace": true, "bytes.TrimRight": true, "bytes.TrimLeft": true, "bytes.Trim": true, "bytes.TrimPrefix": true, "bytes.TrimSuffix": true, "bytes.Cut": true, "bytes.CutPrefix": true, "bytes.CutSuffix": true, "bytes.Fields": true, "bytes.Split": true, "bytes.SplitN": true, "slices.Clip": true}
		// functions of the package whose result is (a view of) a borrowed buffer, to a fixpoint
		viewFns := map[*types.Func]bool{}
		fns := c.funcsWithLits(pM)
		var taintedIn func(f *Func) map[types.Object]bool
		var isView func(f *Func, e ast.Expr, tv map[types.Object]bool) bool
		isView = func(f *Func, e ast.Expr, tv map[types.Object]bool) bool {
			switch x := ast.Unparen(e).(type) {
			case *ast.Ident:
				return tv[f.ObjOf(x)]
			case *ast.SliceExpr:
				// x[:0] of a buffer that outlives the round (a field, a captured variable, a variable declared outside the
				// loop): the recycled scratch buffer, whose contents are valid only until it is filled again
				if c19RecycledReslice(f, x) {
					return true
				}
				return isView(f, x.X, tv)
			case *ast.CallExpr:
				// append onto a view (or onto a recycled buffer) writes into the same backing array while capacity lasts
				if f.BuiltinName(x) == "append" && len(x.Args) > 0 {
					return isView(f, x.Args[0], tv)
				}
				fn := f.Callee(x)
				if fn == nil {
					return false
				}
				if borrowed[fn.FullName()] || viewFns[fn.Origin()] {
					return true
				}
				if aliasing[fn.FullName()] && len(x.Args) > 0 {
					return isView(f, x.Args[0], tv)
				}
			}
			return false
		}
		taintedIn = func(f *Func) map[types.Object]bool {
			tv := map[types.Object]bool{}
			for changed := true; changed; {
				changed = false
				for _, w := range Writes(f.Root().Body, true) {
					o := f.ObjOf(w.LHS)
					if _, isID := ast.Unparen(w.LHS).(*ast.Ident); !isID || o == nil || tv[o] {
						continue
					}
					src := w.RHS
					if src == nil {
						if as, ok := w.Stmt.(*ast.AssignStmt); ok && len(as.Rhs) == 1 {
							// tuple: line, err := r.ReadSlice(..) / before, after, found := bytes.Cut(..): byte-slice results only
							if sl, isSl := f.TypeOf(w.LHS).Underlying().(*types.Slice); isSl {
								if b, isB := sl.Elem().Underlying().(*types.Basic); isB && b.Kind() == types.Uint8 {
									src = as.Rhs[0]
								}
							}
						}
					}
					if src != nil && isView(f, src, tv) {
						tv[o] = true
						changed = true
					}
				}
			}
			return tv
		}
		// mixedFns: functions that hand out a view on some returns and an owned buffer on others (with a flag that says which)
		mixedFns := map[*types.Func]bool{}
		for round := 0; round < 3; round++ {
			for _, f := range fns {
				if f.Lit != nil || f.Obj == nil {
					continue
				}
				tv := taintedIn(f)
				nView, nOwned := 0, 0
				for _, r := range f.Returns() {
					for _, e := range r.Results {
						sl, isSl := f.TypeOf(e).Underlying().(*types.Slice)
						if !isSl {
							continue
						}
						if b, isB := sl.Elem().Underlying().(*types.Basic); !isB || b.Kind() != types.Uint8 {
							continue
						}
						if isView(f, e, tv) {
							nView++
						} else if !isNilIdent(e) {
							nOwned++
						}
					}
				}
				if nView > 0 {
					viewFns[f.Obj.Origin()] = true
					if nOwned > 0 {
						mixedFns[f.Obj.Origin()] = true
					}
				}
			}
		}
		// fromMixed: the view-ness of e hinges on such a function (directly or through locals)
		var fromMixed func(f *Func, e ast.Expr, depth int) bool
		fromMixed = func(f *Func, e ast.Expr, depth int) bool {
			if depth > 4 {
				return false
			}
			switch x := ast.Unparen(e).(type) {
			case *ast.Ident:
				tv := taintedIn(f)
				nView, nOwned := 0, 0
				for _, w := range Writes(f.Root().Body, true) {
					if f.ObjOf(w.LHS) != f.ObjOf(x) || f.ObjOf(x) == nil {
						continue
					}
					src := w.RHS
					if src == nil {
						if as, ok := w.Stmt.(*ast.AssignStmt); ok && len(as.Rhs) == 1 {
							src = as.Rhs[0]
						}
					}
					if src == nil {
						continue
					}
					if fromMixed(f, src, depth+1) {
						return true
					}
					// a variable that is given a view in one place and an owned buffer in another (an expanded helper that
					// returned either, with a flag saying which)
					if isView(f, src, tv) {
						nView++
					} else if !isNilIdent(src) {
						nOwned++
					}
				}
				if nView > 0 && nOwned > 0 {
					return true
				}
			case *ast.SliceExpr:
				return fromMixed(f, x.X, depth+1)
			case *ast.CallExpr:
				if fn := f.Callee(x); fn != nil {
					if mixedFns[fn.Origin()] {
						return true
					}
					if aliasing[fn.FullName()] && len(x.Args) > 0 {
						return fromMixed(f, x.Args[0], depth+1)
					}
				}
			}
			return false
		}
		// ownedByFlag decides the design "one variable holds a view or an owned buffer, and a boolean written together with
		// it says which": every write of the variable m the stored value derives from is a parallel assignment that also
		// sets one and the same boolean to a constant (one value with the views, the other with the owned buffers), the
		// boolean is written nowhere else, and — evaluating the branch conditions with the boolean at its view value —
		// the store cannot be reached from any of the view assignments before the pair is assigned again. The locals
		// between m and the store (trimmed, cut pieces) are recomputed on every way from an assignment of m to the store.
		ownedByFlag := func(f *Func, w Write) string {
			root := f.Root()
			tv := taintedIn(f)
			all := Writes(root.Body, true)
			srcOf := func(x Write) ast.Expr {
				if x.RHS != nil {
					return x.RHS
				}
				if as, ok := x.Stmt.(*ast.AssignStmt); ok && len(as.Rhs) == 1 {
					return as.Rhs[0]
				}
				return nil
			}
			strip := func(e ast.Expr) *ast.Ident {
				for i := 0; i < 8; i++ {
					switch x := ast.Unparen(e).(type) {
					case *ast.Ident:
						return x
					case *ast.SliceExpr:
						e = x.X
					case *ast.CallExpr:
						fn := f.Callee(x)
						if fn == nil || !aliasing[fn.FullName()] || len(x.Args) == 0 {
							return nil
						}
						e = x.Args[0]
					default:
						return nil
					}
				}
				return nil
			}
			// the chain store ← x_k ← … ← x_1 ← m
			var chain []types.Object
			var m types.Object
			var mWrites []Write
			cur := strip(w.RHS)
			for depth := 0; cur != nil && depth < 6; depth++ {
				o := f.ObjOf(cur)
				if v, isV := o.(*types.Var); !isV || v.IsField() || root.addressTaken(o) {
					return ""
				}
				var ws []Write
				for _, x := range all {
					if _, isID := ast.Unparen(x.LHS).(*ast.Ident); !isID || f.ObjOf(x.LHS) != o {
						continue
					}
					if vs, isVS := x.Stmt.(*ast.ValueSpec); isVS && len(vs.Values) == 0 {
						continue
					}
					src := srcOf(x)
					if src == nil {
						return ""
					}
					if id := strip(src); id != nil && f.ObjOf(id) == o {
						continue // a piece of itself: the same buffer as before
					}
					ws = append(ws, x)
				}
				if len(ws) == 0 {
					return ""
				}
				if len(ws) == 1 {
					chain = append(chain, o)
					cur = strip(srcOf(ws[0]))
					continue
				}
				m, mWrites = o, ws
				break
			}
			if m == nil {
				return ""
			}
			g := f.Graph()
			store := g.VertexOf(w.Stmt)
			if store < 0 {
				return ""
			}
			// the flag
			type pairW struct {
				v    int
				view bool
				flag bool
			}
			var flagObj types.Object
			var pairs []pairW
			stmts := map[ast.Node]bool{}
			first, _ := mWrites[0].Stmt.(*ast.AssignStmt)
			if first == nil || len(first.Lhs) != len(first.Rhs) {
				return ""
			}
			for j := range first.Lhs {
				cand := f.ObjOf(first.Lhs[j])
				if cv, isV := cand.(*types.Var); !isV || cv.IsField() || cand == m || root.addressTaken(cand) {
					continue
				}
				if _, isC := f.ConstBool(first.Rhs[j]); !isC {
					continue
				}
				okAll := true
				var ps []pairW
				st := map[ast.Node]bool{}
				for _, x := range mWrites {
					as, isAs := x.Stmt.(*ast.AssignStmt)
					if !isAs || len(as.Lhs) != len(as.Rhs) {
						okAll = false
						break
					}
					fv, found := false, false
					for k := range as.Lhs {
						if _, isID := ast.Unparen(as.Lhs[k]).(*ast.Ident); isID && f.ObjOf(as.Lhs[k]) == cand {
							if b, isC := f.ConstBool(as.Rhs[k]); isC {
								fv, found = b, true
							}
						}
					}
					v := g.VertexOf(as)
					if !found || v < 0 {
						okAll = false
						break
					}
					st[as] = true
					ps = append(ps, pairW{v, isView(f, x.RHS, tv), fv})
				}
				if !okAll {
					continue
				}
				// one value with every view, the other with every owned buffer
				var viewVal, ownVal, haveV, haveO = false, false, false, false
				for _, p := range ps {
					if p.view {
						if haveV && viewVal != p.flag {
							okAll = false
						}
						viewVal, haveV = p.flag, true
					} else {
						if haveO && ownVal != p.flag {
							okAll = false
						}
						ownVal, haveO = p.flag, true
					}
				}
				if !okAll || !haveV || !haveO || viewVal == ownVal {
					continue
				}
				// written nowhere else
				for _, x := range all {
					if _, isID := ast.Unparen(x.LHS).(*ast.Ident); isID && f.ObjOf(x.LHS) == cand && !st[x.Stmt] {
						if vs, isVS := x.Stmt.(*ast.ValueSpec); isVS && len(vs.Values) == 0 {
							continue
						}
						okAll = false
					}
				}
				if okAll {
					flagObj, pairs, stmts = cand, ps, st
					break
				}
			}
			if flagObj == nil {
				return ""
			}
			isPair := func(v int) bool {
				n := g.Node(v)
				return n != nil && stmts[n]
			}
			var viewVal bool
			for _, p := range pairs {
				if p.view {
					viewVal = p.flag
				}
			}
			// the locals in between are recomputed on every way to the store
			prev := []int{}
			for _, p := range pairs {
				prev = append(prev, p.v)
			}
			for i := len(chain) - 1; i >= 0; i-- {
				o := chain[i]
				isDef := func(v int) bool {
					n := g.Node(v)
					if n == nil {
						return false
					}
					for _, x := range Writes(n, false) {
						if _, isID := ast.Unparen(x.LHS).(*ast.Ident); isID && f.ObjOf(x.LHS) == o {
							return true
						}
					}
					return false
				}
				var defs []int
				for v := 0; v < g.N; v++ {
					if isDef(v) {
						defs = append(defs, v)
					}
				}
				if len(defs) == 0 {
					return "" // defined in another function
				}
				for _, from := range prev {
					if from == store {
						continue
					}
					if ok, _ := g.MustPass(from, []int{store}, isDef); !ok {
						return ""
					}
				}
				prev = defs
			}
			leaf := func(e ast.Expr) tri {
				if id, isID := ast.Unparen(e).(*ast.Ident); isID && f.ObjOf(id) == flagObj {
					if viewVal {
						return triTrue
					}
					return triFalse
				}
				return triUnknown
			}
			for _, p := range pairs {
				if !p.view {
					continue
				}
				if c19ReachUnderFrom(g, g.succ[p.v], leaf, isPair)[store] {
					return ""
				}
			}
			return "every assignment of " + m.Name() + " sets " + flagObj.Name() + " alongside (" + map[bool]string{true: "true", false: "false"}[viewVal] + " with a view of the reader's buffer), and with that value the store is not reached"
		}
		nSrc, nSink := 0, 0
		for _, f := range fns {
			tv := taintedIn(f)
			if len(tv) == 0 {
				continue
			}
			nSrc++
			c.touch(f)
			for _, w := range Writes(f.Body, false) {
				if w.RHS == nil {
					continue
				}
				// stored in a field (or an element of one)
				lhs := ast.Unparen(w.LHS)
				if ix, isIx := lhs.(*ast.IndexExpr); isIx {
					lhs = ast.Unparen(ix.X)
				}
				if sel, isSel := lhs.(*ast.SelectorExpr); isSel {
					if fv, isF := f.ObjOf(sel.Sel).(*types.Var); isF && fv.IsField() {
						nSink++
						if c19RecycleHomes(f)[fv] {
							continue // the scratch buffer put back where it is recycled from
						}
						if isView(f, w.RHS, tv) && fromMixed(f, w.RHS, 0) {
							if why := ownedByFlag(f, w); why != "" {
								c.Ok("borrowed-buffer:stored:"+f.Name()+":"+fv.Name(), f, w.Stmt, "%s receives %s only when it is an owned buffer: %s", exprStr(w.LHS), exprStr(w.RHS), why)
								continue
							}
							c.Undecided("borrowed-buffer:stored:"+f.Name()+":"+fv.Name(), f, w.Stmt, "%s receives %s, which comes from a function that returns a view of the reader's buffer on some paths and an owned buffer on others: whether this store only sees the owned ones is a flag-dependent fact this rule does not track", exprStr(w.LHS), exprStr(w.RHS))
							continue
						}
						c.Check(!isView(f, w.RHS, tv), "borrowed-buffer:stored:"+f.Name()+":"+fv.Name(), f, w.Stmt, "%s receives a copy, not a view of the reader's buffer (%s)", exprStr(w.LHS), exprStr(w.RHS))
					}
				}
				// collected as an element: x = append(x, view)
				if ce, isC := ast.Unparen(w.RHS).(*ast.CallExpr); isC && f.BuiltinName(ce) == "append" && !ce.Ellipsis.IsValid() {
					for _, a := range ce.Args[1:] {
						if isView(f, a, tv) {
							nSink++
							c.Fail("borrowed-buffer:collected:"+f.Name(), f, w.Stmt, "a view of the reader's buffer (%s) is appended as an element: it changes under the collection at the next read", exprStr(a))
						}
					}
				}
			}
		}
		c.Ok("borrowed-buffer:population", nil, nil, "%d functions handle borrowed reader buffers, %d stores examined (the tree the rule was written for reads with ReadBytes, which allocates: 0 and 0)", nSrc, nSink)
	})

	c.Rule("R-C19-9", "what the peer said survives the transports' own error wrapping and read-ahead: when an error is wrapped together with jsonrpc2.ErrRejected the peer's error comes first (errors.As finds the first *WireError in the chain), and the newline-delimited reader keeps one json.Decoder for the life of the connection (its read-ahead buffer holds the next messages)", func() {
		rej := c.Obj(pJ, "ErrRejected")
		respErr := c.Field(pJ, "Response", "Error")
		n := 0
		for _, f := range c.funcsWithLits(pM) {
			for _, call := range f.AllCalls(f.Body, false) {
				ws := f.ErrorfWraps(call)
				if len(ws) < 2 {
					continue
				}
				ri, pi := -1, -1
				for i, w := range ws {
					if o := f.ObjOf(w); o != nil && sameObj(o, rej) {
						ri = i
					}
					if f.IsField(w, respErr) {
						pi = i
					}
				}
				if ri < 0 || pi < 0 {
					continue
				}
				n++
				c.Check(pi < ri, "wrap-order:"+f.Name(), f, call, "the peer's JSON-RPC error is wrapped before ErrRejected (which is itself a *WireError with code -32005 and no data): errors.As and the re-encoding of the failure then report the peer's code, message and data")
			}
		}
		c.Pin("errors wrapping both a peer error and ErrRejected", n, 1)
		// the peer's error is never flattened to text: wherever Response.Error is an operand of fmt.Errorf it is under %w
		for _, f := range c.funcsWithLits(pM) {
			for _, call := range f.AllCalls(f.Body, false) {
				fn := f.Callee(call)
				if fn == nil || fn.FullName() != "fmt.Errorf" {
					continue
				}
				wrapped := map[ast.Expr]bool{}
				for _, w := range f.ErrorfWraps(call) {
					wrapped[w] = true
				}
				for _, a := range call.Args[1:] {
					if f.IsField(a, respErr) {
						c.Check(wrapped[a], "peer-error-wrapped:"+f.Name(), f, call, "the peer's JSON-RPC error is an operand of %%w (with %%v the caller's errors.As no longer finds it, and code, message and data are lost)")
					}
				}
			}
		}
		// one decoder per connection
		nio := c.Fn(pM, "", "newIOConn")
		nd := c.Std("encoding/json", "", "NewDecoder")
		m := 0
		for _, f := range append([]*Func{nio}, nio.AllLits()...) {
			for _, call := range f.CallsIn(f.Body, nd, false) {
				m++
				inLoop := false
				inspectNoLit(f.Body, func(x ast.Node) {
					switch l := x.(type) {
					case *ast.ForStmt:
						if encloses(l.Body, call) {
							inLoop = true
						}
					case *ast.RangeStmt:
						if encloses(l.Body, call) {
							inLoop = true
						}
					}
				})
				// and it is the decoder the loop decodes from
				dv := f.VarFromCall(nd, 0)
				used := false
				inspectNoLit(f.Body, func(x ast.Node) {
					if l, ok := x.(*ast.ForStmt); ok {
						for _, dc := range f.AllCalls(l.Body, false) {
							if nm, on := f.SelectorOn(dc.Fun, dv); on && nm == "Decode" {
								used = true
							}
						}
					}
				})
				c.Check(!inLoop && used, "ioConn:one-decoder-per-connection", f, call, "json.NewDecoder is called once, outside the read loop that calls Decode on it: a decoder created per message throws away the bytes it read ahead, i.e. every message that arrived in the same Read as its predecessor")
			}
		}
		c.Pin("json.NewDecoder sites in newIOConn", m, 1)
	})

	c.Import("R-C19-10", "stored events are replayed byte for byte: what the in-memory store hands to a resuming stream is a copy taken under its lock, not a view of a backing array that eviction overwrites", "C20", "R-C20-3", func(k string) bool { return strings.HasPrefix(k, "After:copy") })

	c.Rule("R-C19-7", "hand-written conversions between two protocol struct types copy every field the two types share: a composite literal S2{F: x.F, …} built from a value x of another struct type S1 names all fields common to S1 and S2 (custom MarshalJSON/UnmarshalJSON methods and the helpers they call)", func() {
		structOf := func(t types.Type) (*types.Named, *types.Struct) {
			if pt, ok := t.(*types.Pointer); ok {
				t = pt.Elem()
			}
			n, _ := t.(*types.Named)
			if n == nil {
				return nil, nil
			}
			st, _ := n.Underlying().(*types.Struct)
			return n, st
		}
		fieldsOf := func(st *types.Struct) map[string]bool {
			m := map[string]bool{}
			for i := 0; i < st.NumFields(); i++ {
				f := st.Field(i) // embedded fields count too (Meta is embedded with a _meta tag): a literal names them by type
				if tag, _ := jsonTag(st.Tag(i), f.Name()); tag == "-" {
					continue
				}
				m[f.Name()] = true
			}
			return m
		}
		n := 0
		// codec functions only: custom (Un)MarshalJSON methods and the SDK functions they call. Adapters elsewhere (e.g. the
		// client synthesising an InitializeResult from a DiscoverResult) may legitimately carry over a subset.
		codec := map[*Func]bool{}
		var frontier []*Func
		for _, rel := range []string{pM, pJ} {
			for _, f := range c.funcsWithLits(rel) {
				if f.Obj != nil && (f.Obj.Name() == "MarshalJSON" || f.Obj.Name() == "UnmarshalJSON") {
					codec[f] = true
					frontier = append(frontier, f)
				}
			}
		}
		for depth := 0; depth < 3; depth++ {
			var next []*Func
			for _, f := range frontier {
				for _, call := range f.AllCalls(f.Body, true) {
					if fn := f.Callee(call); fn != nil {
						if g := c.P.FuncOf(fn); g != nil && !codec[g] {
							codec[g] = true
							next = append(next, g)
						}
					}
				}
			}
			frontier = next
		}
		for _, rel := range []string{pM, pJ} {
			for _, f := range c.funcsWithLits(rel) {
				if !codec[f.Root()] {
					continue
				}
				inspectNoLit(f.Body, func(x ast.Node) {
					cl, ok := x.(*ast.CompositeLit)
					if !ok || len(cl.Elts) < 2 {
						return
					}
					dstN, dstS := structOf(f.TypeOf(cl))
					if dstS == nil {
						return
					}
					// wire-facing types only: some field carries a json tag
					tagged := false
					for i := 0; i < dstS.NumFields(); i++ {
						if strings.Contains(dstS.Tag(i), "json:") {
							tagged = true
						}
					}
					if !tagged {
						return
					}
					// same-named copies F: x.F, grouped by the source variable
					bySrc := map[types.Object][]string{}
					keys := map[string]bool{}
					for _, e := range cl.Elts {
						kv, isKV := e.(*ast.KeyValueExpr)
						if !isKV {
							return
						}
						k, isId := kv.Key.(*ast.Ident)
						if !isId {
							return
						}
						keys[k.Name] = true
						if sel, isSel := ast.Unparen(kv.Value).(*ast.SelectorExpr); isSel && sel.Sel.Name == k.Name {
							if o := f.ObjOf(sel.X); o != nil {
								bySrc[o] = append(bySrc[o], k.Name)
							}
						}
					}
					for src, copied := range bySrc {
						srcN, srcS := structOf(src.Type())
						if srcS == nil || srcN == dstN || len(copied) < 2 {
							continue
						}
						n++
						var missing []string
						srcF := fieldsOf(srcS)
						for name := range fieldsOf(dstS) {
							if srcF[name] && !keys[name] {
								missing = append(missing, name)
							}
						}
						sort.Strings(missing)
						c.Check(len(missing) == 0, "convert:"+f.Name()+":"+srcN.Obj().Name()+"→"+dstN.Obj().Name(), f, cl, "the %s built from a %s copies %d same-named fields; shared fields not carried over: %v (a dropped field, e.g. _meta, disappears silently from the wire form)", dstN.Obj().Name(), srcN.Obj().Name(), len(copied), missing)
					}
				})
			}
		}
		c.Pin("hand-written struct conversions in codec functions", n, 5)
		// a value conversion copies: whatever is assigned to the source after `*x = T(src)` is lost. In every
		// UnmarshalJSON of the protocol types no field of the converted value is written after the conversion.
		nConv := 0
		for _, f := range c.P.FuncsIn(pM) {
			if f.Obj == nil || f.Obj.Name() != "UnmarshalJSON" || f.Body == nil {
				continue
			}
			g := f.Graph()
			for _, w := range Writes(f.Body, false) {
				st, isStar := ast.Unparen(w.LHS).(*ast.StarExpr)
				if !isStar || w.RHS == nil || f.ObjOf(st.X) != types.Object(f.Recv()) {
					continue
				}
				conv, isCall := ast.Unparen(w.RHS).(*ast.CallExpr)
				if !isCall || len(conv.Args) != 1 {
					continue
				}
				if tv, ok := f.Info().Types[conv.Fun]; !ok || !tv.IsType() {
					continue
				}
				nConv++
				src := canonExpr(f, conv.Args[0])
				after := g.ReachableFrom(g.VertexOf(w.Stmt))
				late := false
				for _, w2 := range Writes(f.Body, false) {
					if w2.Stmt == w.Stmt {
						continue
					}
					if l := canonExpr(f, w2.LHS); (l == src || strings.HasPrefix(l, src+".")) && after[g.VertexOf(w2.Stmt)] {
						late = true
					}
				}
				c.Check(!late, "UnmarshalJSON:"+f.Name()+":nothing-assigned-after-the-conversion", f, w.Stmt, "every field of %s is set before it is converted into the receiver (a later assignment changes only the local copy)", src)
			}
		}
		c.Pin("UnmarshalJSON conversions into the receiver", nConv, 3)

	})

	c.Rule("R-C19-8", "decoding never panics on a JSON null inside a container: in UnmarshalJSON methods and the helpers they call, an element of a decoded map[K]*T or []*T is dereferenced only under a nil test (encoding/json stores nil for a null element)", func() {
		// the decoder functions: every UnmarshalJSON of the protocol packages plus the SDK functions they call (3 levels)
		dec := map[*Func]bool{}
		var frontier []*Func
		for _, rel := range []string{pM, pJ} {
			for _, f := range c.funcsWithLits(rel) {
				if f.Obj != nil && f.Obj.Name() == "UnmarshalJSON" {
					dec[f] = true
					frontier = append(frontier, f)
				}
			}
		}
		for depth := 0; depth < 3; depth++ {
			var next []*Func
			for _, f := range frontier {
				for _, call := range f.AllCalls(f.Body, true) {
					if fn := f.Callee(call); fn != nil {
						if g := c.P.FuncOf(fn); g != nil && !dec[g] {
							dec[g] = true
							next = append(next, g)
						}
					}
				}
			}
			frontier = next
		}
		ptrElem := func(t types.Type) bool {
			switch u := t.Underlying().(type) {
			case *types.Map:
				_, ok := u.Elem().Underlying().(*types.Pointer)
				return ok
			case *types.Slice:
				_, ok := u.Elem().Underlying().(*types.Pointer)
				return ok
			}
			return false
		}
		// derefsUnguarded lists the field selections / explicit dereferences of obj in f that no non-nil test dominates
		derefsUnguarded := func(f *Func, obj types.Object, within ast.Node) []ast.Node {
			var out []ast.Node
			g := f.Graph()
			ast.Inspect(within, func(n ast.Node) bool {
				var base ast.Expr
				switch x := n.(type) {
				case *ast.SelectorExpr:
					if fld, ok := f.ObjOf(x).(*types.Var); ok && fld.IsField() {
						base = x.X
					}
				case *ast.StarExpr:
					base = x.X
				}
				if base == nil || f.ObjOf(base) != obj {
					return true
				}
				v := g.VertexOf(n)
				if v < 0 || !hasAtom(g.GuardsAt(v), func(a Atom) bool { return AtomSaysNil(a, false, func(e ast.Expr) bool { return f.ObjOf(e) == obj }) }) {
					out = append(out, n)
				}
				return true
			})
			return out
		}
		n := 0
		var fs []*Func
		for f := range dec {
			fs = append(fs, f)
		}
		sort.Slice(fs, func(i, j int) bool { return fs[i].Body.Pos() < fs[j].Body.Pos() })
		for _, f := range fs {
			if f.Lit != nil {
				continue
			}
			c.touch(f)
			inspectNoLit(f.Body, func(x ast.Node) {
				rs, ok := x.(*ast.RangeStmt)
				if !ok || rs.Value == nil || !ptrElem(f.TypeOf(rs.X)) {
					return
				}
				v := f.ObjOf(rs.Value)
				if v == nil {
					return
				}
				n++
				bad := derefsUnguarded(f, v, rs.Body)
				// the element handed to another SDK function: that function must test its parameter first
				for _, call := range f.AllCalls(rs.Body, false) {
					fn := f.Callee(call)
					if fn == nil {
						continue
					}
					g := c.P.FuncOf(fn)
					if g == nil {
						continue
					}
					for i, a := range call.Args {
						if f.ObjOf(a) == v && i < len(g.NonRecvParams()) {
							for _, d := range derefsUnguarded(g, g.NonRecvParams()[i], g.Body) {
								bad = append(bad, d)
								_ = d
							}
						}
					}
				}
				where := ""
				if len(bad) > 0 {
					where = c.P.Rel(bad[0].Pos())
				}
				c.Check(len(bad) == 0, "null-element:"+f.Name()+":"+f.FieldPath(rs.X), f, rs, "elements of %s (pointer elements filled by the JSON decoder) are dereferenced only after a nil test; unguarded dereference at %s: a null element makes the decoder panic", types.TypeString(f.TypeOf(rs.X), func(p *types.Package) string { return p.Name() }), where)
			})
		}
		c.Pin("loops over decoded pointer containers in decoders", n, 2)
	})
}

// typeHasStruct reports whether decoding into t can match struct field names.
func typeHasStruct(t types.Type, seen map[types.Type]bool, depth int) bool {
	if t == nil || depth > 8 || seen[t] {
		return false
	}
	seen[t] = true
	switch x := t.(type) {
	case *types.Pointer:
		return typeHasStruct(x.Elem(), seen, depth+1)
	case *types.Named:
		// types with their own UnmarshalJSON decide for themselves
		for i := 0; i < x.NumMethods(); i++ {
			if x.Method(i).Name() == "UnmarshalJSON" {
				return false
			}
		}
		return typeHasStruct(x.Underlying(), seen, depth+1)
	case *types.Alias:
		return typeHasStruct(types.Unalias(x), seen, depth+1)
	case *types.Struct:
		return true
	case *types.Slice:
		return typeHasStruct(x.Elem(), seen, depth+1)
	case *types.Array:
		return typeHasStruct(x.Elem(), seen, depth+1)
	case *types.Map:
		return typeHasStruct(x.Elem(), seen, depth+1)
	case *types.TypeParam:
		return true // unknown instantiation: assume it can be a struct
	}
	return false
}

// typeAssertVar returns the value variable of `x, ok := v.(*rel.name)` in f's own body.
func typeAssertVar(f *Func, rel, name string) types.Object {
	var out types.Object
	inspectNoLit(f.Body, func(n ast.Node) {
		as, ok := n.(*ast.AssignStmt)
		if !ok || len(as.Lhs) != 2 || len(as.Rhs) != 1 {
			return
		}
		if ta, ok := ast.Unparen(as.Rhs[0]).(*ast.TypeAssertExpr); ok && ta.Type != nil && isNamedType(f.TypeOf(ta.Type), modPath+"/"+rel, name) {
			out = f.ObjOf(as.Lhs[0])
		}
	})
	return out
}

// canonExpr renders an expression independently of variable names: selector chains start at the
// root's type, locals are rendered by type, calls by callee name and canonical arguments.
func canonExpr(f *Func, e ast.Expr) string {
	e = ast.Unparen(e)
	if ce, ok := e.(*ast.CallExpr); ok {
		if fn := f.Callee(ce); fn != nil && !(fn.Pkg() != nil && fn.Pkg().Path() == "context") {
			var as []string
			for _, a := range ce.Args {
				as = append(as, canonExpr(f, a))
			}
			return fn.Name() + "(" + strings.Join(as, ", ") + ")"
		}
	}
	return f.FieldPath(e)
}

// returnsInt64ID: some return of f hands out Int64ID(…).
func returnsInt64ID(f *Func) bool {
	for _, r := range f.Returns() {
		for _, e := range r.Results {
			if ce, ok := ast.Unparen(e).(*ast.CallExpr); ok && f.Callee(ce) != nil && f.Callee(ce).Name() == "Int64ID" {
				return true
			}
		}
	}
	return false
}

// comparesWithBackslash: f compares something with the byte or rune '\\'.
func comparesWithBackslash(f *Func) bool {
	found := false
	ast.Inspect(f.Body, func(n ast.Node) bool {
		if _, y, _, ok := binaryCmp2(n); ok {
			if v, isC := f.ConstInt(y); isC && v == '\\' {
				if b, isB := f.TypeOf(y).Underlying().(*types.Basic); isB && (b.Kind() == types.Uint8 || b.Kind() == types.Int32 || b.Kind() == types.UntypedRune) {
					found = true
				}
			}
		}
		return !found
	})
	return found
}

// callsStrconv: f parses with the standard library (any strconv function): then the exact form ParseInt(raw, 10, 64) is
// what is asked for, and ParseUint, Atoi or another bit size is a violation rather than a design this rule cannot judge.
func callsStrconv(f *Func) bool {
	for _, call := range f.AllCalls(f.Body, true) {
		if fn := f.Callee(call); fn != nil && fn.Pkg() != nil && fn.Pkg().Path() == "strconv" {
			return true
		}
	}
	return false
}

// c19RecycledReslice: x is `b[:0]` of a buffer b that outlives the round in which the expression is evaluated — a field, a
// package-level or captured variable, or a variable declared outside the innermost loop around the expression: the idiom
// of the recycled scratch buffer (what is built on it is overwritten the next time round).
func c19RecycledReslice(f *Func, x *ast.SliceExpr) bool {
	if x.Low != nil || x.High == nil || x.Slice3 {
		return false
	}
	if z, ok := f.ConstInt(x.High); !ok || z != 0 {
		return false
	}
	return c19Persistent(f, x.X, x) != nil
}

// c19Persistent returns the object of e if it names storage that outlives the innermost loop / function literal around at.
func c19Persistent(f *Func, e ast.Expr, at ast.Node) types.Object {
	root := f.Root()
	switch b := ast.Unparen(e).(type) {
	case *ast.SelectorExpr:
		if fv, ok := f.ObjOf(b.Sel).(*types.Var); ok && fv.IsField() {
			return fv
		}
	case *ast.Ident:
		v, ok := f.ObjOf(b).(*types.Var)
		if !ok || v.Pkg() == nil {
			return nil
		}
		if v.Parent() == v.Pkg().Scope() {
			return v
		}
		outside := func(n ast.Node) bool { return n != nil && (v.Pos() < n.Pos() || v.Pos() >= n.End()) }
		lit := root.Enclosing(at, func(n ast.Node) bool { _, ok := n.(*ast.FuncLit); return ok })
		loop := root.Enclosing(at, func(n ast.Node) bool {
			switch n.(type) {
			case *ast.ForStmt, *ast.RangeStmt:
				return true
			}
			return false
		})
		if outside(lit) || outside(loop) {
			return v
		}
	}
	return nil
}

// c19RecycleHomes: the buffers that are recycled with b[:0] somewhere in the declared function around f.
func c19RecycleHomes(f *Func) map[types.Object]bool {
	out := map[types.Object]bool{}
	root := f.Root()
	ast.Inspect(root.Body, func(n ast.Node) bool {
		if x, ok := n.(*ast.SliceExpr); ok && c19RecycledReslice(f, x) {
			if o := c19Persistent(f, x.X, x); o != nil {
				out[o] = true
			}
		}
		return true
	})
	return out
}

// c19ReachUnderFrom is Graph.ReachUnder with given start vertices: the vertices reachable from starts when the branch
// conditions are evaluated in three-valued logic under leaf0 (definitely false/true outcomes are pruned), not entering
// blocked vertices.
func c19ReachUnderFrom(g *Graph, starts []int, leaf0 func(ast.Expr) tri, blocked func(int) bool) []bool {
	pruned := map[[2]int]bool{}
	for i, b := range g.C.Blocks {
		if !b.Live || len(b.Succs) != 2 || len(b.Nodes) == 0 {
			continue
		}
		cond, ok := b.Nodes[len(b.Nodes)-1].(ast.Expr)
		if !ok {
			continue
		}
		ev := g.off[i] + len(b.Nodes)
		var val tri
		switch b.Succs[0].Kind {
		case cfg.KindIfThen, cfg.KindForBody:
			val = evalTri(cond, leaf0)
		case cfg.KindSwitchCaseBody:
			cc, _ := b.Succs[0].Stmt.(*ast.CaseClause)
			var sw *ast.SwitchStmt
			if cc != nil {
				if blk, ok := g.F.ParentOf(cc).(*ast.BlockStmt); ok {
					sw, _ = g.F.ParentOf(blk).(*ast.SwitchStmt)
				}
			}
			if sw == nil {
				continue
			}
			if sw.Tag != nil {
				val = leaf0(&ast.BinaryExpr{X: sw.Tag, Op: token.EQL, Y: cond})
			} else {
				val = evalTri(cond, leaf0)
			}
		default:
			continue
		}
		switch val {
		case triTrue:
			pruned[[2]int{ev, 1}] = true
		case triFalse:
			pruned[[2]int{ev, 0}] = true
		}
	}
	var st []int
	for _, s := range starts {
		if blocked == nil || !blocked(s) {
			st = append(st, s)
		}
	}
	seen, _ := g.reach(st, blocked, func(u, k int) bool { return pruned[[2]int{u, k}] })
	return seen
}

// ---- evaluation of a hand-written integer parser on concrete inputs ------------------------------------------------
//
// c19Eval runs a function of the module on concrete arguments over its syntax tree: integers with Go's wrap-around
// arithmetic, booleans, byte slices and strings; if/for/range/switch, labelled break/continue, calls of module functions
// with a body. Anything else (an opaque call, an unsupported construct, too many steps) stops the run with the reason, so
// a result is only ever reported for a run that was carried out completely.

type c19Val struct {
	k  int // 0 unknown, 1 integer, 2 bool, 3 bytes, 4 string, 5 nil/other, 6 Int64ID(i), 7 non-nil error
	i  uint64
	b  bool
	bs []byte
	s  string
}

type c19Ctl struct {
	kind  int // 0 none, 1 break, 2 continue, 3 return, 4 stop
	label string
	rets  []c19Val
	why   string // stop: "call:<name>" or "unsupported:<what>"
}

type c19Eval struct {
	c     *Ctx
	env   map[types.Object]c19Val
	steps int
	depth int
}

func c19IntKind(t types.Type) (bits int, signed, ok bool) {
	b, isB := t.Underlying().(*types.Basic)
	if !isB {
		return 0, false, false
	}
	switch b.Kind() {
	case types.Int, types.Int64, types.UntypedInt, types.UntypedRune:
		return 64, true, true
	case types.Int32:
		return 32, true, true
	case types.Int16:
		return 16, true, true
	case types.Int8:
		return 8, true, true
	case types.Uint, types.Uint64, types.Uintptr:
		return 64, false, true
	case types.Uint32:
		return 32, false, true
	case types.Uint16:
		return 16, false, true
	case types.Uint8:
		return 8, false, true
	}
	return 0, false, false
}

func c19Norm(v uint64, bits int, signed bool) uint64 {
	if bits >= 64 {
		return v
	}
	v &= 1<<uint(bits) - 1
	if signed && v&(1<<uint(bits-1)) != 0 {
		v |= ^uint64(0) << uint(bits)
	}
	return v
}

func c19IsByteSlice(t types.Type) bool {
	sl, ok := t.Underlying().(*types.Slice)
	if !ok {
		return false
	}
	b, isB := sl.Elem().Underlying().(*types.Basic)
	return isB && b.Kind() == types.Uint8
}

func c19Zero(t types.Type) c19Val {
	if _, _, ok := c19IntKind(t); ok {
		return c19Val{k: 1}
	}
	if b, ok := t.Underlying().(*types.Basic); ok {
		if b.Info()&types.IsBoolean != 0 {
			return c19Val{k: 2}
		}
		if b.Info()&types.IsString != 0 {
			return c19Val{k: 4}
		}
	}
	if c19IsByteSlice(t) {
		return c19Val{k: 3}
	}
	return c19Val{k: 5}
}

func c19Stop(why string) c19Ctl { return c19Ctl{kind: 4, why: why} }

func (ev *c19Eval) expr(f *Func, e ast.Expr) (c19Val, *c19Ctl) {
	stop := func(why string) (c19Val, *c19Ctl) { s := c19Stop(why); return c19Val{}, &s }
	ev.steps++
	if ev.steps > 200000 {
		return stop("unsupported:too many steps")
	}
	e = ast.Unparen(e)
	if tv, ok := f.Info().Types[e]; ok && tv.Value != nil {
		switch tv.Value.Kind() {
		case constant.Bool:
			return c19Val{k: 2, b: constant.BoolVal(tv.Value)}, nil
		case constant.String:
			return c19Val{k: 4, s: constant.StringVal(tv.Value)}, nil
		case constant.Int:
			if u, exact := constant.Uint64Val(tv.Value); exact {
				return c19Val{k: 1, i: u}, nil
			}
			if i, exact := constant.Int64Val(tv.Value); exact {
				return c19Val{k: 1, i: uint64(i)}, nil
			}
		}
		return stop("unsupported:constant")
	}
	switch x := e.(type) {
	case *ast.Ident:
		if x.Name == "nil" {
			return c19Val{k: 5}, nil
		}
		if v, ok := ev.env[f.ObjOf(x)]; ok && v.k != 0 {
			return v, nil
		}
		return stop("unsupported:variable " + x.Name)
	case *ast.CompositeLit:
		return c19Val{k: 5}, nil
	case *ast.UnaryExpr:
		v, ctl := ev.expr(f, x.X)
		if ctl != nil {
			return v, ctl
		}
		bits, signed, isInt := c19IntKind(f.TypeOf(e))
		switch {
		case x.Op == token.NOT && v.k == 2:
			return c19Val{k: 2, b: !v.b}, nil
		case x.Op == token.SUB && v.k == 1 && isInt:
			return c19Val{k: 1, i: c19Norm(-v.i, bits, signed)}, nil
		case x.Op == token.ADD && v.k == 1:
			return v, nil
		case x.Op == token.XOR && v.k == 1 && isInt:
			return c19Val{k: 1, i: c19Norm(^v.i, bits, signed)}, nil
		}
		return stop("unsupported:unary " + x.Op.String())
	case *ast.BinaryExpr:
		l, ctl := ev.expr(f, x.X)
		if ctl != nil {
			return l, ctl
		}
		if x.Op == token.LAND || x.Op == token.LOR {
			if l.k != 2 {
				return stop("unsupported:logical operand")
			}
			if (x.Op == token.LAND && !l.b) || (x.Op == token.LOR && l.b) {
				return l, nil
			}
			return ev.expr(f, x.Y)
		}
		r, ctl := ev.expr(f, x.Y)
		if ctl != nil {
			return r, ctl
		}
		if (l.k == 5 || l.k == 7) && (r.k == 5 || r.k == 7) && (x.Op == token.EQL || x.Op == token.NEQ) {
			if l.k == 7 && r.k == 7 {
				return stop("unsupported:comparison of two errors")
			}
			return c19Val{k: 2, b: (l.k == r.k) == (x.Op == token.EQL)}, nil
		}
		if l.k == 2 && r.k == 2 && (x.Op == token.EQL || x.Op == token.NEQ) {
			return c19Val{k: 2, b: (l.b == r.b) == (x.Op == token.EQL)}, nil
		}
		if l.k == 4 && r.k == 4 {
			switch x.Op {
			case token.EQL:
				return c19Val{k: 2, b: l.s == r.s}, nil
			case token.NEQ:
				return c19Val{k: 2, b: l.s != r.s}, nil
			case token.ADD:
				return c19Val{k: 4, s: l.s + r.s}, nil
			}
		}
		if l.k != 1 || r.k != 1 {
			return stop("unsupported:operands of " + x.Op.String())
		}
		_, osigned, ok := c19IntKind(f.TypeOf(x.X))
		if !ok {
			return stop("unsupported:operand type")
		}
		cmp := func(lt, eq bool) (c19Val, *c19Ctl) {
			var res bool
			switch x.Op {
			case token.EQL:
				res = eq
			case token.NEQ:
				res = !eq
			case token.LSS:
				res = lt
			case token.LEQ:
				res = lt || eq
			case token.GTR:
				res = !lt && !eq
			case token.GEQ:
				res = !lt
			}
			return c19Val{k: 2, b: res}, nil
		}
		switch x.Op {
		case token.EQL, token.NEQ, token.LSS, token.LEQ, token.GTR, token.GEQ:
			if osigned {
				return cmp(int64(l.i) < int64(r.i), l.i == r.i)
			}
			return cmp(l.i < r.i, l.i == r.i)
		}
		bits, signed, ok := c19IntKind(f.TypeOf(e))
		if !ok {
			return stop("unsupported:result type")
		}
		var res uint64
		switch x.Op {
		case token.ADD:
			res = l.i + r.i
		case token.SUB:
			res = l.i - r.i
		case token.MUL:
			res = l.i * r.i
		case token.QUO, token.REM:
			if r.i == 0 {
				return stop("panic:division by zero")
			}
			if signed {
				if x.Op == token.QUO {
					res = uint64(int64(l.i) / int64(r.i))
				} else {
					res = uint64(int64(l.i) % int64(r.i))
				}
			} else if x.Op == token.QUO {
				res = l.i / r.i
			} else {
				res = l.i % r.i
			}
		case token.AND:
			res = l.i & r.i
		case token.OR:
			res = l.i | r.i
		case token.XOR:
			res = l.i ^ r.i
		case token.AND_NOT:
			res = l.i &^ r.i
		case token.SHL:
			if r.i >= 64 {
				res = 0
			} else {
				res = l.i << r.i
			}
		case token.SHR:
			sh := r.i
			if sh > 63 {
				sh = 63
				if !signed {
					return c19Val{k: 1}, nil
				}
			}
			if signed {
				res = uint64(int64(l.i) >> sh)
			} else {
				res = l.i >> sh
			}
		default:
			return stop("unsupported:operator " + x.Op.String())
		}
		return c19Val{k: 1, i: c19Norm(res, bits, signed)}, nil
	case *ast.IndexExpr:
		b, ctl := ev.expr(f, x.X)
		if ctl != nil {
			return b, ctl
		}
		ix, ctl := ev.expr(f, x.Index)
		if ctl != nil {
			return ix, ctl
		}
		if ix.k != 1 {
			return stop("unsupported:index")
		}
		switch b.k {
		case 3:
			if int64(ix.i) < 0 || int64(ix.i) >= int64(len(b.bs)) {
				return stop("panic:index out of range")
			}
			return c19Val{k: 1, i: uint64(b.bs[ix.i])}, nil
		case 4:
			if int64(ix.i) < 0 || int64(ix.i) >= int64(len(b.s)) {
				return stop("panic:index out of range")
			}
			return c19Val{k: 1, i: uint64(b.s[ix.i])}, nil
		}
		return stop("unsupported:indexed value")
	case *ast.SliceExpr:
		b, ctl := ev.expr(f, x.X)
		if ctl != nil {
			return b, ctl
		}
		n := len(b.bs)
		if b.k == 4 {
			n = len(b.s)
		} else if b.k != 3 {
			return stop("unsupported:sliced value")
		}
		lo, hi := 0, n
		if x.Slice3 {
			return stop("unsupported:3-index slice")
		}
		if x.Low != nil {
			v, ctl := ev.expr(f, x.Low)
			if ctl != nil || v.k != 1 {
				return stop("unsupported:slice bound")
			}
			lo = int(int64(v.i))
		}
		if x.High != nil {
			v, ctl := ev.expr(f, x.High)
			if ctl != nil || v.k != 1 {
				return stop("unsupported:slice bound")
			}
			hi = int(int64(v.i))
		}
		if lo < 0 || hi > n || lo > hi {
			return stop("panic:slice bounds out of range")
		}
		if b.k == 4 {
			return c19Val{k: 4, s: b.s[lo:hi]}, nil
		}
		return c19Val{k: 3, bs: b.bs[lo:hi]}, nil
	case *ast.CallExpr:
		vs, ctl := ev.call(f, x)
		if ctl != nil {
			return c19Val{}, ctl
		}
		if len(vs) != 1 {
			return stop("unsupported:multi-value call in expression")
		}
		return vs[0], nil
	}
	return stop("unsupported:expression")
}

func (ev *c19Eval) call(f *Func, x *ast.CallExpr) ([]c19Val, *c19Ctl) {
	stop := func(why string) ([]c19Val, *c19Ctl) { s := c19Stop(why); return nil, &s }
	if tv, ok := f.Info().Types[x.Fun]; ok && tv.IsType() && len(x.Args) == 1 {
		v, ctl := ev.expr(f, x.Args[0])
		if ctl != nil {
			return nil, ctl
		}
		if bits, signed, isInt := c19IntKind(tv.Type); isInt && v.k == 1 {
			return []c19Val{{k: 1, i: c19Norm(v.i, bits, signed)}}, nil
		}
		if b, isB := tv.Type.Underlying().(*types.Basic); isB && b.Info()&types.IsString != 0 {
			switch v.k {
			case 3:
				return []c19Val{{k: 4, s: string(v.bs)}}, nil
			case 4:
				return []c19Val{v}, nil
			}
		}
		if c19IsByteSlice(tv.Type) {
			switch v.k {
			case 3:
				return []c19Val{v}, nil
			case 4:
				return []c19Val{{k: 3, bs: []byte(v.s)}}, nil
			case 5:
				return []c19Val{{k: 3}}, nil
			}
		}
		return stop("unsupported:conversion")
	}
	if f.BuiltinName(x) == "len" && len(x.Args) == 1 {
		v, ctl := ev.expr(f, x.Args[0])
		if ctl != nil {
			return nil, ctl
		}
		switch v.k {
		case 3:
			return []c19Val{{k: 1, i: uint64(len(v.bs))}}, nil
		case 4:
			return []c19Val{{k: 1, i: uint64(len(v.s))}}, nil
		}
		return stop("unsupported:len")
	}
	fn := f.Callee(x)
	if fn == nil {
		return stop("call:?")
	}
	if fn.Name() == "Int64ID" && len(x.Args) == 1 {
		v, ctl := ev.expr(f, x.Args[0])
		if ctl != nil {
			return nil, ctl
		}
		if v.k != 1 {
			return stop("unsupported:Int64ID argument")
		}
		return []c19Val{{k: 6, i: v.i}}, nil
	}
	if fn.Pkg() != nil && fn.Pkg().Path() == "strconv" && (fn.Name() == "ParseInt" || fn.Name() == "ParseUint") && len(x.Args) == 3 {
		var a [3]c19Val
		for i := range a {
			v, ctl := ev.expr(f, x.Args[i])
			if ctl != nil {
				return nil, ctl
			}
			a[i] = v
		}
		if a[0].k != 4 || a[1].k != 1 || a[2].k != 1 {
			return stop("unsupported:strconv arguments")
		}
		var res uint64
		var err error
		if fn.Name() == "ParseInt" {
			var i int64
			i, err = strconv.ParseInt(a[0].s, int(a[1].i), int(a[2].i))
			res = uint64(i)
		} else {
			res, err = strconv.ParseUint(a[0].s, int(a[1].i), int(a[2].i))
		}
		e := c19Val{k: 5}
		if err != nil {
			e = c19Val{k: 7}
		}
		return []c19Val{{k: 1, i: res}, e}, nil
	}
	g := ev.c.P.FuncOf(fn)
	if g == nil || g.Body == nil || g.Decl == nil || g.Decl.Recv != nil || ev.depth >= 3 || x.Ellipsis.IsValid() {
		return stop("call:" + fn.Name())
	}
	ps := g.NonRecvParams()
	if len(ps) != len(x.Args) {
		return stop("call:" + fn.Name())
	}
	var args []c19Val
	for _, a := range x.Args {
		v, ctl := ev.expr(f, a)
		if ctl != nil {
			if strings.HasPrefix(ctl.why, "unsupported:") {
				return stop("call:" + fn.Name()) // a call this evaluation cannot carry out: opaque
			}
			return nil, ctl
		}
		args = append(args, v)
	}
	for i, p := range ps {
		ev.env[p] = args[i]
	}
	var named []types.Object
	if g.Decl.Type.Results != nil {
		for _, fld := range g.Decl.Type.Results.List {
			for _, nm := range fld.Names {
				if o := g.Info().Defs[nm]; o != nil {
					ev.env[o] = c19Zero(o.Type())
					named = append(named, o)
				}
			}
		}
	}
	ev.depth++
	ctl := ev.block(g, g.Body.List)
	ev.depth--
	switch ctl.kind {
	case 3:
		if ctl.rets == nil && len(named) > 0 {
			var out []c19Val
			for _, o := range named {
				out = append(out, ev.env[o])
			}
			return out, nil
		}
		return ctl.rets, nil
	case 4:
		if strings.HasPrefix(ctl.why, "unsupported:") {
			return stop("call:" + fn.Name())
		}
		return nil, &ctl
	case 0:
		return nil, nil
	}
	return stop("unsupported:control flow out of " + fn.Name())
}

func (ev *c19Eval) block(f *Func, list []ast.Stmt) c19Ctl {
	for _, s := range list {
		if ctl := ev.stmt(f, s, ""); ctl.kind != 0 {
			return ctl
		}
	}
	return c19Ctl{}
}

func (ev *c19Eval) assign(f *Func, lhs ast.Expr, v c19Val) *c19Ctl {
	id, ok := ast.Unparen(lhs).(*ast.Ident)
	if !ok {
		s := c19Stop("unsupported:assignment target")
		return &s
	}
	if id.Name == "_" {
		return nil
	}
	o := f.ObjOf(id)
	if o == nil {
		s := c19Stop("unsupported:assignment target")
		return &s
	}
	ev.env[o] = v
	return nil
}

func (ev *c19Eval) stmt(f *Func, s ast.Stmt, label string) c19Ctl {
	ev.steps++
	if ev.steps > 200000 {
		return c19Stop("unsupported:too many steps")
	}
	// a loop / switch consumes the break (and a loop the continue) addressed to it
	mine := func(ctl c19Ctl, kind int) bool {
		return ctl.kind == kind && (ctl.label == "" || ctl.label == label)
	}
	switch x := s.(type) {
	case nil:
		return c19Ctl{}
	case *ast.EmptyStmt:
		return c19Ctl{}
	case *ast.BlockStmt:
		return ev.block(f, x.List)
	case *ast.LabeledStmt:
		ctl := ev.stmt(f, x.Stmt, x.Label.Name)
		if ctl.kind == 1 && ctl.label == x.Label.Name {
			return c19Ctl{}
		}
		return ctl
	case *ast.DeclStmt:
		gd, ok := x.Decl.(*ast.GenDecl)
		if !ok || gd.Tok == token.CONST || gd.Tok == token.TYPE {
			return c19Ctl{}
		}
		for _, sp := range gd.Specs {
			vs, ok := sp.(*ast.ValueSpec)
			if !ok {
				continue
			}
			for i, nm := range vs.Names {
				o := f.Info().Defs[nm]
				if o == nil {
					continue
				}
				switch {
				case len(vs.Values) == 0:
					ev.env[o] = c19Zero(o.Type())
				case len(vs.Values) == len(vs.Names):
					v, ctl := ev.expr(f, vs.Values[i])
					if ctl != nil {
						return *ctl
					}
					ev.env[o] = v
				default:
					return c19Stop("unsupported:var from tuple")
				}
			}
		}
		return c19Ctl{}
	case *ast.ExprStmt:
		if call, ok := ast.Unparen(x.X).(*ast.CallExpr); ok {
			if _, ctl := ev.call(f, call); ctl != nil {
				return *ctl
			}
			return c19Ctl{}
		}
		return c19Stop("unsupported:expression statement")
	case *ast.IncDecStmt:
		v, ctl := ev.expr(f, x.X)
		if ctl != nil {
			return *ctl
		}
		bits, signed, ok := c19IntKind(f.TypeOf(x.X))
		if v.k != 1 || !ok {
			return c19Stop("unsupported:inc/dec")
		}
		if x.Tok == token.INC {
			v.i++
		} else {
			v.i--
		}
		v.i = c19Norm(v.i, bits, signed)
		if c := ev.assign(f, x.X, v); c != nil {
			return *c
		}
		return c19Ctl{}
	case *ast.AssignStmt:
		if x.Tok != token.ASSIGN && x.Tok != token.DEFINE {
			// op-assignment: a op= b
			if len(x.Lhs) != 1 || len(x.Rhs) != 1 {
				return c19Stop("unsupported:assignment")
			}
			op := map[token.Token]token.Token{token.ADD_ASSIGN: token.ADD, token.SUB_ASSIGN: token.SUB, token.MUL_ASSIGN: token.MUL, token.QUO_ASSIGN: token.QUO, token.REM_ASSIGN: token.REM, token.AND_ASSIGN: token.AND, token.OR_ASSIGN: token.OR, token.XOR_ASSIGN: token.XOR, token.SHL_ASSIGN: token.SHL, token.SHR_ASSIGN: token.SHR}[x.Tok]
			if op == token.ILLEGAL {
				return c19Stop("unsupported:assignment operator")
			}
			be := &ast.BinaryExpr{X: x.Lhs[0], Op: op, Y: x.Rhs[0]}
			// the type of the synthetic expression is the type of the target
			f.Info().Types[be] = types.TypeAndValue{Type: f.TypeOf(x.Lhs[0])}
			v, ctl := ev.expr(f, be)
			delete(f.Info().Types, be)
			if ctl != nil {
				return *ctl
			}
			if c := ev.assign(f, x.Lhs[0], v); c != nil {
				return *c
			}
			return c19Ctl{}
		}
		var vals []c19Val
		if len(x.Rhs) == 1 && len(x.Lhs) > 1 {
			call, ok := ast.Unparen(x.Rhs[0]).(*ast.CallExpr)
			if !ok {
				return c19Stop("unsupported:tuple assignment")
			}
			vs, ctl := ev.call(f, call)
			if ctl != nil {
				return *ctl
			}
			vals = vs
		} else {
			for _, r := range x.Rhs {
				v, ctl := ev.expr(f, r)
				if ctl != nil {
					return *ctl
				}
				vals = append(vals, v)
			}
		}
		if len(vals) != len(x.Lhs) {
			return c19Stop("unsupported:assignment arity")
		}
		for i, l := range x.Lhs {
			if c := ev.assign(f, l, vals[i]); c != nil {
				return *c
			}
		}
		return c19Ctl{}
	case *ast.IfStmt:
		if ctl := ev.stmt(f, x.Init, ""); ctl.kind != 0 {
			return ctl
		}
		v, ctl := ev.expr(f, x.Cond)
		if ctl != nil {
			return *ctl
		}
		if v.k != 2 {
			return c19Stop("unsupported:condition")
		}
		if v.b {
			return ev.block(f, x.Body.List)
		}
		if x.Else != nil {
			return ev.stmt(f, x.Else, "")
		}
		return c19Ctl{}
	case *ast.ForStmt:
		if ctl := ev.stmt(f, x.Init, ""); ctl.kind != 0 {
			return ctl
		}
		for {
			if x.Cond != nil {
				v, ctl := ev.expr(f, x.Cond)
				if ctl != nil {
					return *ctl
				}
				if v.k != 2 {
					return c19Stop("unsupported:condition")
				}
				if !v.b {
					return c19Ctl{}
				}
			}
			ctl := ev.block(f, x.Body.List)
			if mine(ctl, 1) {
				return c19Ctl{}
			}
			if ctl.kind != 0 && !mine(ctl, 2) {
				return ctl
			}
			if ctl := ev.stmt(f, x.Post, ""); ctl.kind != 0 {
				return ctl
			}
			if ev.steps > 200000 {
				return c19Stop("unsupported:too many steps")
			}
		}
	case *ast.RangeStmt:
		v, ctl := ev.expr(f, x.X)
		if ctl != nil {
			return *ctl
		}
		if v.k != 3 {
			return c19Stop("unsupported:range operand")
		}
		for i, b := range v.bs {
			if x.Key != nil {
				if c := ev.assign(f, x.Key, c19Val{k: 1, i: uint64(i)}); c != nil {
					return *c
				}
			}
			if x.Value != nil {
				if c := ev.assign(f, x.Value, c19Val{k: 1, i: uint64(b)}); c != nil {
					return *c
				}
			}
			ctl := ev.block(f, x.Body.List)
			if mine(ctl, 1) {
				return c19Ctl{}
			}
			if ctl.kind != 0 && !mine(ctl, 2) {
				return ctl
			}
		}
		return c19Ctl{}
	case *ast.SwitchStmt:
		if ctl := ev.stmt(f, x.Init, ""); ctl.kind != 0 {
			return ctl
		}
		var tag *c19Val
		if x.Tag != nil {
			v, ctl := ev.expr(f, x.Tag)
			if ctl != nil {
				return *ctl
			}
			tag = &v
		}
		var chosen, def *ast.CaseClause
	clauses:
		for _, cs := range x.Body.List {
			cc := cs.(*ast.CaseClause)
			if cc.List == nil {
				def = cc
				continue
			}
			for _, ce := range cc.List {
				v, ctl := ev.expr(f, ce)
				if ctl != nil {
					return *ctl
				}
				hit := false
				switch {
				case tag == nil && v.k == 2:
					hit = v.b
				case tag != nil && tag.k == 1 && v.k == 1:
					hit = tag.i == v.i
				case tag != nil && tag.k == 4 && v.k == 4:
					hit = tag.s == v.s
				case tag != nil && tag.k == 2 && v.k == 2:
					hit = tag.b == v.b
				default:
					return c19Stop("unsupported:case")
				}
				if hit {
					chosen = cc
					break clauses
				}
			}
		}
		if chosen == nil {
			chosen = def
		}
		if chosen == nil {
			return c19Ctl{}
		}
		for _, st := range chosen.Body {
			if br, ok := st.(*ast.BranchStmt); ok && br.Tok == token.FALLTHROUGH {
				return c19Stop("unsupported:fallthrough")
			}
		}
		ctl := ev.block(f, chosen.Body)
		if mine(ctl, 1) {
			return c19Ctl{}
		}
		return ctl
	case *ast.BranchStmt:
		lb := ""
		if x.Label != nil {
			lb = x.Label.Name
		}
		switch x.Tok {
		case token.BREAK:
			return c19Ctl{kind: 1, label: lb}
		case token.CONTINUE:
			return c19Ctl{kind: 2, label: lb}
		}
		return c19Stop("unsupported:" + x.Tok.String())
	case *ast.ReturnStmt:
		out := c19Ctl{kind: 3}
		if len(x.Results) == 1 {
			if call, ok := ast.Unparen(x.Results[0]).(*ast.CallExpr); ok {
				if tv, isT := f.Info().Types[call]; isT {
					if _, isTuple := tv.Type.(*types.Tuple); isTuple {
						vs, ctl := ev.call(f, call)
						if ctl != nil {
							return *ctl
						}
						out.rets = vs
						return out
					}
				}
			}
		}
		for _, r := range x.Results {
			v, ctl := ev.expr(f, r)
			if ctl != nil {
				return *ctl
			}
			out.rets = append(out.rets, v)
		}
		return out
	}
	return c19Stop("unsupported:statement")
}

// c19DecodeIntegerIDs runs d (the decoder of a raw id, one parameter of byte-slice type) on ids in integer syntax around
// the limits of int64 and of float64's exact range. verdict "ok": every run was carried out to its end and every id
// that is an int64 came back as Int64ID of exactly that value, no other input came back as an Int64ID from the
// hand-written path; "bad": some completed run gave another answer (detail names it); "": not decided.
func c19DecodeIntegerIDs(c *Ctx, d *Func) (verdict, detail string) {
	ps := d.NonRecvParams()
	if len(ps) != 1 || !c19IsByteSlice(ps[0].Type()) || d.Body == nil {
		return "", ""
	}
	inputs := []string{"0", "7", "-1", "10", "9007199254740992", "9007199254740993", "-9007199254740993", "1000000000000000000", "-1000000000000000000",
		"922337203685477580", "922337203685477581", "4611686018427387904", "9223372036854775799", "-9223372036854775799",
		"9223372036854775808", "-9223372036854775809", "9223372036854775810", "18446744073709551615", "18446744073709551616", "18446744073709551617", "92233720368547758070", "-92233720368547758080", "100000000000000000000",
		"12a", "1.0", "1e3", "-", "\"7\"", "\"a\"", "null", "7 "}
	for k := 0; k <= 7; k++ {
		inputs = append(inputs, "922337203685477580"+itoa(k), "-922337203685477580"+itoa(k))
	}
	inputs = append(inputs, "-9223372036854775808")
	// the general path of d is the float coercion (MakeID of the value the JSON decoder produced)
	coerces := false
	for _, call := range d.AllCalls(d.Body, true) {
		if fn := d.Callee(call); fn != nil && fn.Name() == "MakeID" {
			coerces = true
		}
	}
	undecided := ""
	for _, in := range inputs {
		want, err := strconv.ParseInt(in, 10, 64)
		isInt := err == nil
		ev := &c19Eval{c: c, env: map[types.Object]c19Val{ps[0]: {k: 3, bs: []byte(in)}}}
		ctl := ev.block(d, d.Body.List)
		switch {
		case ctl.kind == 3 && len(ctl.rets) >= 1 && ctl.rets[0].k == 6:
			got := int64(ctl.rets[0].i)
			if !isInt {
				return "bad", "the id " + in + ", which is not an integer in the range of int64, is decoded as the integer id " + strconv.FormatInt(got, 10)
			}
			if got != want {
				return "bad", "the integer id " + in + " is decoded as " + strconv.FormatInt(got, 10)
			}
		case ctl.kind == 3:
			// some other answer (the zero ID, an error): not an id at all
			if isInt {
				return "bad", "the integer id " + in + " is not decoded as an integer id"
			}
		case ctl.kind == 4 && strings.HasPrefix(ctl.why, "panic:"):
			return "bad", "decoding the id " + in + " panics (" + strings.TrimPrefix(ctl.why, "panic:") + ")"
		case ctl.kind == 4 && (ctl.why == "call:Unmarshal" || ctl.why == "call:MakeID") && coerces:
			// handed to the general decoder, which goes through float64: exact only within ±2^53
			if isInt && (want > 1<<53 || want < -(1<<53)) {
				return "bad", "the integer id " + in + " is refused by the integer path and falls through to the float64 coercion of the general decoder, which cannot represent it (it comes back as another id)"
			}
		default:
			if undecided == "" {
				undecided = in + ": " + ctl.why
			}
		}
	}
	if undecided != "" {
		return "", undecided
	}
	return "ok", itoa(len(inputs)) + " ids around ±2^53, ±2^63 and 2^64 evaluated"
}

package main

import (
	"go/ast"
	"go/token"
	"go/types"
	"sort"
	"strings"
)

func init() { register("C19", rulesC19, nil) }

// idExactnessRule is shared by R-C19-1 and R-C02-6.
func idExactnessRule(c *Ctx) {
	// representation invariant of ID: the dynamic value is a string or an int64 (or absent). Ids are map keys: the id of
	// an outgoing call is an int64, and a response id of any other dynamic type (a float64 for "7.0") would never match it.
	idT := c.P.LookupType(pJ, "ID")
	c.Need(idT != nil, "jsonrpc2.ID")
	nLit := 0
	for _, rel := range []string{pJ, pM, "jsonrpc"} {
		if c.P.Pkg(rel) == nil {
			continue
		}
		for _, f := range c.funcsWithLits(rel) {
			inspectNoLit(f.Body, func(n ast.Node) {
				cl, ok := n.(*ast.CompositeLit)
				if !ok || namedOf(f.TypeOf(cl)) != idT {
					return
				}
				for _, e := range cl.Elts {
					v := e
					if kv, isKV := e.(*ast.KeyValueExpr); isKV {
						v = kv.Value
					}
					nLit++
					t := f.TypeOf(v)
					okT := false
					if b, isB := t.Underlying().(*types.Basic); isB && (b.Kind() == types.String || b.Kind() == types.Int64 || b.Kind() == types.UntypedString) {
						okT = true
					}
					c.Check(okT, "ID-representation:"+f.Name(), f, cl, "an ID is built only from a string or an int64 (found %s)", types.TypeString(t, nil))
				}
			})
		}
	}
	c.Pin("ID literals with a value", nLit, 2)
	wd := c.P.LookupType(pJ, "wireDecode")
	c.Need(wd != nil, "jsonrpc2.wireDecode")
	idF := c.Field(pJ, "wireDecode", "ID")
	exact := false
	switch t := idF.Type().(type) {
	case *types.Named:
		exact = t.Obj().Name() == "RawMessage" || t.Obj().Name() == "Number"
	case *types.Alias:
		exact = true
	}
	if b, ok := idF.Type().Underlying().(*types.Basic); ok && b.Kind() == types.String {
		exact = true
	}
	if _, isIface := idF.Type().Underlying().(*types.Interface); isIface {
		exact = false
	}
	c.Check(exact, "wireDecode.ID:raw", nil, nil, "the id member is decoded into %s (raw text), not into any/float64: a float64 cannot represent integers beyond 2^53 (9007199254740993 would be echoed as …992)", idF.Type())
	makeID := c.FnObj(pJ, "", "MakeID")
	decodeID := c.FnObj(pJ, "", "DecodeID")
	parseInt := c.Std("strconv", "", "ParseInt")
	// callers of MakeID
	n := 0
	for _, rel := range []string{pJ, pM, "jsonrpc"} {
		if c.P.Pkg(rel) == nil {
			continue
		}
		for _, f := range c.funcsWithLits(rel) {
			for _, call := range f.CallsIn(f.Body, makeID, false) {
				n++
				g := f.Graph()
				v := g.VertexOf(call)
				okPI := false
				for _, pv := range g.callVertices(parseInt) {
					ev := errVarOfCall(f, g.Node(pv))
					if ev != nil && g.Dominates(pv, v) && hasAtom(g.GuardsAt(v), func(a Atom) bool { return AtomSaysNil(a, false, func(e ast.Expr) bool { return f.ObjOf(e) == ev }) }) {
						okPI = true
					}
				}
				// the same by evaluation: with a first byte of integer syntax ('-', '0', '5') every way to MakeID leads through
				// the ParseInt attempt (a switch on the first byte that sends only digits to ParseInt is the same decision)
				if !okPI && len(g.callVertices(parseInt)) > 0 && len(f.NonRecvParams()) == 1 {
					raw := f.NonRecvParams()[0]
					isFirstByte := func(e ast.Expr) bool {
						e = ast.Unparen(e)
						if ix, ok := e.(*ast.IndexExpr); ok {
							z, isZ := f.ConstInt(ix.Index)
							return isZ && z == 0 && f.ObjOf(ix.X) == types.Object(raw)
						}
						if id, ok := e.(*ast.Ident); ok {
							if lv, isV := f.ObjOf(id).(*types.Var); isV && !lv.IsField() {
								ws := f.writesToVar(f.Root().Body, lv, true)
								if len(ws) == 1 {
									if as, isAs := ws[0].(*ast.AssignStmt); isAs && len(as.Rhs) == 1 {
										if ix, ok := ast.Unparen(as.Rhs[0]).(*ast.IndexExpr); ok {
											z, isZ := f.ConstInt(ix.Index)
											return isZ && z == 0 && f.ObjOf(ix.X) == types.Object(raw)
										}
									}
								}
							}
						}
						return false
					}
					all := true
					for _, b := range []int64{'-', '0', '5', '9'} {
						leaf := func(e ast.Expr) tri {
							x, y, op, ok := binaryCmp(e)
							if !ok {
								return triUnknown
							}
							val, cst := x, y
							flip := false
							if !isFirstByte(val) {
								val, cst, flip = y, x, true
							}
							z, isZ := f.ConstInt(cst)
							if !isFirstByte(val) || !isZ {
								return triUnknown
							}
							l, r := b, z
							if flip {
								l, r = z, b
							}
							var res bool
							switch op {
							case token.EQL:
								res = l == r
							case token.NEQ:
								res = l != r
							case token.LSS:
								res = l < r
							case token.LEQ:
								res = l <= r
							case token.GTR:
								res = l > r
							case token.GEQ:
								res = l >= r
							default:
								return triUnknown
							}
							if res {
								return triTrue
							}
							return triFalse
						}
						isPI := func(u int) bool {
							for _, pv := range g.callVertices(parseInt) {
								if pv == u {
									return true
								}
							}
							return false
						}
						if g.ReachUnder(leaf, isPI)[v] {
							all = false
						}
					}
					// ... and ParseInt's failure is what lets it through
					if all {
						for _, pv := range g.callVertices(parseInt) {
							if ev := errVarOfCall(f, g.Node(pv)); ev != nil && g.ReachableFrom(pv)[v] {
								okPI = true
							}
						}
					}
				}
				// an exported API wrapper that forwards its own parameter is not a wire path
				if f.Obj != nil && f.Obj.Exported() && f.Pkg == c.P.Pkg("jsonrpc") && len(f.Params()) == 1 && f.ObjOf(call.Args[0]) == types.Object(f.Params()[0]) {
					c.Ok("MakeID-caller:"+f.Pkg.Name+"."+f.Name()+"(public wrapper)", f, call, "public re-export for callers that already hold a Go value; not on a wire decode path")
					continue
				}
				if f.Obj == decodeID && !okPI && !callsStrconv(f) && returnsInt64ID(f) {
					c.Undecided("MakeID-caller:"+f.Name(), f, call, "integer ids are parsed by hand-written code instead of strconv.ParseInt: whether that parser is exact for every int64 is not something this rule can decide")
					continue
				}
				c.Check(f.Obj == decodeID && okPI, "MakeID-caller:"+f.Name(), f, call, "the float coercion MakeID is used on wire input only as the fallback after an exact strconv.ParseInt of the same raw text failed (1.0, 1e3)")
			}
		}
	}
	c.Pin("MakeID callers", n, 1)
	// DecodeID: exact parse first
	d := c.Fn(pJ, "", "DecodeID")
	dg := d.Graph()
	okExact := false
	for _, pv := range dg.callVertices(parseInt) {
		call := d.CallsIn(dg.Node(pv), parseInt, false)[0]
		b, ok1 := d.ConstInt(call.Args[1])
		bits, ok2 := d.ConstInt(call.Args[2])
		if ok1 && ok2 && b == 10 && bits == 64 && len(d.NonRecvParams()) == 1 && d.Mentions(call.Args[0], d.NonRecvParams()[0]) {
			for _, r := range d.Returns() {
				if len(r.Results) == 2 {
					if ce, ok := ast.Unparen(r.Results[0]).(*ast.CallExpr); ok && d.Callee(ce) != nil && d.Callee(ce).Name() == "Int64ID" && dg.Dominates(pv, dg.VertexOf(r)) {
						okExact = true
					}
				}
			}
		}
	}
	// everything that is not an integer literal is decoded by the JSON decoder: an id leaves DecodeID as Int64ID of the
	// parsed integer, as MakeID of the Unmarshal-ed value, or as the zero ID (empty input / error) — never as a slice of
	// the raw text (a string id with an escape in it, "a\"b" or "\u00e9", would then differ from what every other
	// decoder makes of it, and the response no longer matches the request)
	for i, r := range d.Returns() {
		okForm := false
		switch len(r.Results) {
		case 1:
			if ce, ok := ast.Unparen(r.Results[0]).(*ast.CallExpr); ok && d.Callee(ce) == makeID && len(ce.Args) == 1 {
				// the argument was filled by Unmarshal(raw, &v)
				for _, uc := range d.AllCalls(d.Body, false) {
					if fn := d.Callee(uc); fn != nil && fn.Name() == "Unmarshal" && len(uc.Args) == 2 {
						if u, isU := ast.Unparen(uc.Args[1]).(*ast.UnaryExpr); isU && u.Op == token.AND && d.ObjOf(u.X) == d.ObjOf(ce.Args[0]) && d.ObjOf(u.X) != nil {
							okForm = true
						}
					}
				}
			}
		case 2:
			switch x := ast.Unparen(r.Results[0]).(type) {
			case *ast.CompositeLit:
				okForm = len(x.Elts) == 0
				if len(x.Elts) == 1 {
					// ID{value: s} with s filled by Unmarshal(raw, &s): what StringID(s) is
					val := x.Elts[0]
					if kv, isKV := val.(*ast.KeyValueExpr); isKV {
						val = kv.Value
					}
					for _, uc := range d.AllCalls(d.Body, false) {
						if fn := d.Callee(uc); fn != nil && fn.Name() == "Unmarshal" && len(uc.Args) == 2 {
							if u, isU := ast.Unparen(uc.Args[1]).(*ast.UnaryExpr); isU && u.Op == token.AND && d.ObjOf(u.X) != nil && d.ObjOf(u.X) == d.ObjOf(val) {
								okForm = true
							}
						}
					}
				}
			case *ast.CallExpr:
				okForm = d.Callee(x) != nil && d.Callee(x).Name() == "Int64ID"
			}
		}
		if !okForm && comparesWithBackslash(d) {
			c.Undecided("DecodeID:decoded-by-the-decoder#"+itoa(i), d, r, "an id is built from the raw text by hand-written code that looks at escapes (a comparison with '\\\\'): whether it agrees with the JSON decoder for every string is not something this rule can decide (got %s)", exprStr(r.Results[0]))
			continue
		}
		c.Check(okForm, "DecodeID:decoded-by-the-decoder#"+itoa(i), d, r, "DecodeID returns Int64ID(parsed), MakeID(unmarshalled value) or the zero ID (got %s)", exprStr(r.Results[0]))
	}
	if !okExact && !callsStrconv(d) && returnsInt64ID(d) {
		c.Undecided("DecodeID:exact-integer-path", d, nil, "integer ids are parsed by hand-written code instead of strconv.ParseInt(raw, 10, 64): exactness over the whole int64 range is not decided here")
	} else {
		c.Check(okExact, "DecodeID:exact-integer-path", d, nil, "an id in integer syntax is parsed with strconv.ParseInt(raw, 10, 64) and wrapped by Int64ID without passing through float64")
	}
	// DecodeMessage uses DecodeID on the raw member
	dm := c.Fn(pJ, "", "DecodeMessage")
	okDM := false
	for _, call := range dm.CallsIn(dm.Body, decodeID, false) {
		if dm.IsField(call.Args[0], idF) {
			okDM = true
		}
	}
	c.Check(okDM, "DecodeMessage:id-via-DecodeID", dm, nil, "DecodeMessage obtains the id from DecodeID(msg.ID)")
	// float64 → int64 conversions exist only inside MakeID
	for _, f := range c.funcsWithLits(pJ) {
		inspectNoLit(f.Body, func(x ast.Node) {
			call, ok := x.(*ast.CallExpr)
			if !ok || len(call.Args) != 1 {
				return
			}
			tv, ok := f.Info().Types[call.Fun]
			if !ok || !tv.IsType() {
				return
			}
			to, _ := tv.Type.Underlying().(*types.Basic)
			from, _ := f.TypeOf(call.Args[0]).Underlying().(*types.Basic)
			if to != nil && from != nil && to.Kind() == types.Int64 && (from.Kind() == types.Float64 || from.Kind() == types.Float32) {
				c.Check(f.Obj == makeID, "float-to-int64:"+f.Name(), f, call, "a float64→int64 conversion in the JSON-RPC layer exists only in the MakeID fallback")
			}
		})
	}
	// the cancelled notification's requestId
	pre := c.Fn(pM, "canceller", "Preempt")
	okP := len(pre.CallsIn(pre.Body, decodeID, false)) == 1 && len(pre.CallsIn(pre.Body, makeID, false)) == 0
	c.Check(okP, "Preempt:requestId-exact", pre, nil, "the requestId of notifications/cancelled is decoded with DecodeID from its raw text")
}

func rulesC19(c *Ctx) {
	c.Rule("R-C19-12", "what goes on the wire is produced by the JSON encoder: every MarshalJSON method of the protocol types returns the output of a Marshal call (of a wire struct, a converted value or nested Marshal results) — no hand-assembled JSON text, whose escaping rules differ from JSON's (strconv.Quote writes \\x1b, \\a, \\U0001f600)", func() {
		n := 0
		isMarshalCall := func(f *Func, e ast.Expr) bool {
			ce, ok := ast.Unparen(e).(*ast.CallExpr)
			if !ok {
				return false
			}
			fn := f.Callee(ce)
			return fn != nil && (fn.Name() == "Marshal" || fn.Name() == "MarshalJSON" || fn.Name() == "MarshalIndent")
		}
		for _, rel := range []string{pM, pJ} {
			for _, f := range c.P.FuncsIn(rel) {
				if f.Obj == nil || f.Obj.Name() != "MarshalJSON" || f.Decl.Recv == nil {
					continue
				}
				c.touch(f)
				for i, r := range f.Returns() {
					var val ast.Expr
					switch len(r.Results) {
					case 1:
						val = r.Results[0]
					case 2:
						if isNilIdent(r.Results[0]) {
							continue // an error return
						}
						val = r.Results[0]
					default:
						continue
					}
					n++
					ok := isMarshalCall(f, val)
					if id, isID := ast.Unparen(val).(*ast.Ident); isID && !ok {
						obj := f.ObjOf(id)
						ws := f.writesToVar(f.Body, obj, false)
						ok = len(ws) > 0
						for _, w := range Writes(f.Body, false) {
							if f.ObjOf(w.LHS) != obj {
								continue
							}
							as, isAs := w.Stmt.(*ast.AssignStmt)
							if !isAs || len(as.Rhs) != 1 || !isMarshalCall(f, as.Rhs[0]) {
								ok = false
							}
						}
					}
					c.Check(ok, "MarshalJSON:encoder-output:"+f.Name()+"#"+itoa(i), f, r, "the bytes returned are the result of a Marshal call (got %s)", exprStr(val))
				}
			}
		}
		c.Pin("value returns of MarshalJSON methods", n, 15)
	})

	c.Import("R-C19-11", "decoding never panics on malformed framing: a line that is not a message or a batch ends in an error before any element of the decoded slice is touched, an empty batch is refused, an undecodable element fails the whole batch", "C02", "R-C02-5", func(k string) bool {
		return strings.HasPrefix(k, "ioConn.Read:readBatch") || strings.HasPrefix(k, "readBatch:") || strings.Contains(k, "readBatch")
	})
	c.Rule("R-C19-1", "request ids keep their type and exact integer value through decode", func() { idExactnessRule(c) })

	c.Rule("R-C19-2", "encode and decode agree on the JSON-RPC envelope: same members, same mapping to API fields; Message has exactly the two implementations", func() {
		wc, wdc := c.P.LookupType(pJ, "wireCombined"), c.P.LookupType(pJ, "wireDecode")
		c.Need(wc != nil && wdc != nil, "wire structs")
		keys := func(n *types.Named) []string {
			st := n.Underlying().(*types.Struct)
			var ks []string
			for i := 0; i < st.NumFields(); i++ {
				k, _ := jsonTag(st.Tag(i), st.Field(i).Name())
				ks = append(ks, k)
			}
			sort.Strings(ks)
			return ks
		}
		a, b := keys(wc), keys(wdc)
		c.Check(strings.Join(a, ",") == strings.Join(b, ","), "wire-structs:same-members", nil, nil, "wireCombined %v and wireDecode %v have the same JSON members", a, b)
		// marshal side
		marshalSets := func(typ string) map[string]string {
			f := c.Fn(pJ, typ, "marshal")
			out := map[string]string{}
			for _, w := range Writes(f.Body, false) {
				if s, ok := ast.Unparen(w.LHS).(*ast.SelectorExpr); ok && w.RHS != nil {
					// members of the wire struct only (other locals may have fields of their own)
					if t := f.TypeOf(s.X); t != nil {
						if pt, isP := t.(*types.Pointer); isP {
							t = pt.Elem()
						}
						if namedOf(t) != wc {
							continue
						}
					}
					out[s.Sel.Name] = canonExpr(f, w.RHS)
					// a value computed in place from the message's own field (the conversion written out instead of called)
					if id, isID := ast.Unparen(w.RHS).(*ast.Ident); isID && s.Sel.Name == "Error" {
						if _, isVar := f.ObjOf(id).(*types.Var); isVar && len(f.FieldRefs(f.Body, c.Field(pJ, "Response", "Error"), false)) > 0 {
							out[s.Sel.Name] = "toWireError(Response.Error)"
						}
					}
				}
			}
			return out
		}
		rq, rs := marshalSets("Request"), marshalSets("Response")
		c.Check(rq["ID"] == "Request.ID.value" && rq["Method"] == "Request.Method" && rq["Params"] == "Request.Params" && len(rq) == 3, "Request.marshal:fields", nil, nil, "a request is encoded from exactly ID, Method, Params (%v)", rq)
		c.Check(rs["ID"] == "Response.ID.value" && rs["Result"] == "Response.Result" && rs["Error"] == "toWireError(Response.Error)" && len(rs) == 3, "Response.marshal:fields", nil, nil, "a response is encoded from exactly ID, Result, Error (%v)", rs)
		// decode side: composite literals in DecodeMessage
		dm := c.Fn(pJ, "", "DecodeMessage")
		got := map[string]map[string]string{}
		inspectNoLit(dm.Body, func(n ast.Node) {
			cl, ok := n.(*ast.CompositeLit)
			if !ok {
				return
			}
			nt := namedOf(dm.TypeOf(cl))
			if nt == nil || (nt.Obj().Name() != "Request" && nt.Obj().Name() != "Response") {
				return
			}
			m := map[string]string{}
			for _, el := range cl.Elts {
				if kv, ok := el.(*ast.KeyValueExpr); ok {
					m[exprStr(kv.Key)] = canonExpr(dm, kv.Value)
				}
			}
			got[nt.Obj().Name()] = m
		})
		c.Check(got["Request"]["ID"] == "local(jsonrpc2.ID)" && got["Request"]["Method"] == "local(string)" && got["Request"]["Params"] == "wireDecode.Params" && len(got["Request"]) == 3, "DecodeMessage:request-fields", dm, nil, "a decoded request takes ID, Method, Params from the wire (%v)", got["Request"])
		c.Check(got["Response"]["ID"] == "local(jsonrpc2.ID)" && got["Response"]["Result"] == "wireDecode.Result", "DecodeMessage:response-fields", dm, nil, "a decoded response takes ID and Result from the wire (%v)", got["Response"])
		okErr := false
		for _, w := range Writes(dm.Body, false) {
			if s, ok := ast.Unparen(w.LHS).(*ast.SelectorExpr); ok && s.Sel.Name == "Error" && w.RHS != nil && canonExpr(dm, w.RHS) == "wireDecode.Error" {
				okErr = true
			}
		}
		c.Check(okErr, "DecodeMessage:response-error", dm, nil, "the wire error (code, message, data) is attached unchanged")
		// toWireError keeps a *WireError as is and the code of a wrapped one
		tw := c.Fn(pJ, "", "toWireError")
		keepsSelf, keepsCode := false, false
		for _, r := range tw.Returns() {
			if len(r.Results) == 1 && isNamedType(tw.TypeOf(r.Results[0]), modPath+"/"+pJ, "WireError") {
				// the value returned unchanged is the type-asserted parameter
				if v := tw.ObjOf(r.Results[0]); v != nil && (v == typeAssertVar(tw, pJ, "WireError") || tw.isTypeSwitchVar(v)) {
					keepsSelf = true // (in `switch e := err.(type) { case *WireError: return e }` the clause's e is the asserted value)
				}
			}
		}
		for _, w := range Writes(tw.Body, false) {
			ls, ok1 := ast.Unparen(w.LHS).(*ast.SelectorExpr)
			if w.RHS == nil || !ok1 {
				continue
			}
			rs, ok2 := ast.Unparen(w.RHS).(*ast.SelectorExpr)
			if ok2 && ls.Sel.Name == "Code" && rs.Sel.Name == "Code" && isNamedType(tw.TypeOf(ls.X), modPath+"/"+pJ, "WireError") && isNamedType(tw.TypeOf(rs.X), modPath+"/"+pJ, "WireError") {
				keepsCode = true
			}
		}
		c.Check(keepsSelf && keepsCode, "toWireError:code-preserved", tw, nil, "a *WireError is sent as is; a wrapped one keeps its code")
		// implementations of Message
		msgI := c.P.LookupType(pJ, "Message")
		var impls []string
		for _, rel := range sdkPkgs {
			pk := c.P.Pkg(rel)
			if pk == nil {
				continue
			}
			sc := pk.Types.Scope()
			for _, name := range sc.Names() {
				if tn, ok := sc.Lookup(name).(*types.TypeName); ok && !tn.IsAlias() {
					if nt, ok := tn.Type().(*types.Named); ok && !types.IsInterface(nt) {
						if types.Implements(types.NewPointer(nt), msgI.Underlying().(*types.Interface)) {
							declares := false // types that merely embed *Request are not additional wire shapes
							for i := 0; i < nt.NumMethods(); i++ {
								if nt.Method(i).Name() == "marshal" {
									declares = true
								}
							}
							if declares {
								impls = append(impls, nt.Obj().Name())
							}
						}
					}
				}
			}
		}
		sort.Strings(impls)
		c.Check(strings.Join(impls, ",") == "Request,Response", "Message:closed-set", nil, nil, "Message is implemented by exactly *Request and *Response (%v)", impls)
	})

	contentI := c.P.LookupType(pM, "Content")
	c.Need(contentI != nil, "mcp.Content")
	var contentTypes []*types.Named
	{
		sc := c.P.Pkg(pM).Types.Scope()
		for _, name := range sc.Names() {
			if tn, ok := sc.Lookup(name).(*types.TypeName); ok && !tn.IsAlias() {
				if nt, ok := tn.Type().(*types.Named); ok && !types.IsInterface(nt) && types.Implements(types.NewPointer(nt), contentI.Underlying().(*types.Interface)) {
					contentTypes = append(contentTypes, nt)
				}
			}
		}
	}
	// the struct type marshalled by a MarshalJSON body and the constant type tag
	marshalInfo := func(nt *types.Named) (f *Func, tag string, st *types.Struct, lit *ast.CompositeLit) {
		f = c.P.FuncOf(c.P.LookupFuncObj(pM, nt.Obj().Name(), "MarshalJSON"))
		if f == nil {
			return
		}
		c.touch(f)
		inspectNoLit(f.Body, func(n ast.Node) {
			cl, ok := n.(*ast.CompositeLit)
			if !ok {
				return
			}
			s, isS := f.TypeOf(cl).Underlying().(*types.Struct)
			if !isS {
				return
			}
			for _, el := range cl.Elts {
				if kv, ok := el.(*ast.KeyValueExpr); ok && exprStr(kv.Key) == "Type" {
					if v, ok := f.ConstString(kv.Value); ok {
						tag, st, lit = v, s, cl
					}
				}
			}
		})
		return
	}

	c.Rule("R-C19-3", "content kinds: each kind's type tag has a decoder case that builds the same Go type, and every field the encoder reads is restored by fromWire", func() {
		cfw := c.Fn(pM, "", "contentFromWire")
		cases := map[string]string{}
		inspectNoLit(cfw.Body, func(n ast.Node) {
			cc, ok := n.(*ast.CaseClause)
			if !ok {
				return
			}
			for _, e := range caseValues(cc) {
				tag, ok := cfw.ConstString(e)
				if !ok {
					continue
				}
				for _, st := range cc.Body {
					if as, ok := st.(*ast.AssignStmt); ok && len(as.Rhs) == 1 {
						if ce, ok := ast.Unparen(as.Rhs[0]).(*ast.CallExpr); ok && cfw.BuiltinName(ce) == "new" {
							cases[tag] = exprStr(ce.Args[0])
						}
					}
				}
			}
		})
		c.Pin("content kinds", len(contentTypes), 7)
		for _, nt := range contentTypes {
			f, tag, st, lit := marshalInfo(nt)
			name := nt.Obj().Name()
			if !c.Check(f != nil && tag != "", name+":constant-type-tag", f, nil, "%s.MarshalJSON emits a constant type tag (%q)", name, tag) {
				continue
			}
			c.Check(cases[tag] == name, name+":decoder-case", cfw, nil, "contentFromWire has case %q constructing %s (got %q)", tag, name, cases[tag])
			// fields read by MarshalJSON vs restored by fromWire
			fw := c.P.FuncOf(c.P.LookupFuncObj(pM, name, "fromWire"))
			if fw == nil {
				c.Fail(name+":fromWire", nil, nil, "no fromWire")
				continue
			}
			c.touch(fw)
			read := map[string]bool{}
			recv := f.Recv()
			ast.Inspect(lit, func(n ast.Node) bool {
				if s, ok := n.(*ast.SelectorExpr); ok && f.ObjOf(s.X) == types.Object(recv) {
					read[s.Sel.Name] = true
				}
				return true
			})
			// locals derived from receiver fields (data := c.Data)
			for _, w := range Writes(f.Body, false) {
				if s, ok := ast.Unparen(w.RHS).(*ast.SelectorExpr); ok && w.RHS != nil && f.ObjOf(s.X) == types.Object(recv) {
					read[s.Sel.Name] = true
				}
			}
			written := map[string]bool{}
			for _, w := range Writes(fw.Body, false) {
				if s, ok := ast.Unparen(w.LHS).(*ast.SelectorExpr); ok && fw.ObjOf(s.X) == types.Object(fw.Recv()) {
					written[s.Sel.Name] = true
				}
			}
			var missing []string
			for k := range read {
				if !written[k] && !(name == "ToolResultContent" && k == "Content") { // nested content is rebuilt by contentFromWire
					missing = append(missing, k)
				}
			}
			c.Check(len(missing) == 0, name+":fields-round-trip", fw, nil, "every field encoded by MarshalJSON is restored by fromWire (missing: %v)", missing)
			// wire keys of the encoder's struct exist with the same spelling in wireContent
			wcT := c.P.LookupType(pM, "wireContent").Underlying().(*types.Struct)
			wkeys := map[string]bool{}
			for i := 0; i < wcT.NumFields(); i++ {
				k, _ := jsonTag(wcT.Tag(i), wcT.Field(i).Name())
				wkeys[k] = true
			}
			var bad []string
			for i := 0; i < st.NumFields(); i++ {
				k, _ := jsonTag(st.Tag(i), st.Field(i).Name())
				if !wkeys[k] {
					bad = append(bad, k)
				}
			}
			c.Check(len(bad) == 0, name+":wire-keys-known-to-decoder", f, nil, "every member the encoder writes is a member the shared decode struct reads (unknown: %v)", bad)
		}
	})

	c.Rule("R-C19-4", "required members are never omitted or null: text, data, content arrays and list arrays are encoded without omitempty, and producers normalise nil arrays before sending", func() {
		required := map[string][]string{"TextContent": {"text"}, "ImageContent": {"data"}, "AudioContent": {"data"}, "ToolResultContent": {"content"}, "ToolUseContent": {"input"}}
		for _, nt := range contentTypes {
			name := nt.Obj().Name()
			f, _, st, _ := marshalInfo(nt)
			if st == nil {
				continue
			}
			for _, req := range required[name] {
				found, omit := false, false
				var ftype types.Type
				for i := 0; i < st.NumFields(); i++ {
					k, o := jsonTag(st.Tag(i), st.Field(i).Name())
					if k == req {
						found, omit, ftype = true, o, st.Field(i).Type()
					}
				}
				c.Check(found && !omit, name+":required-"+req, f, nil, "the struct that %s.MarshalJSON encodes carries %q without omitempty", name, req)
				// nested content must not be re-encoded through a struct that drops required members
				if name == "ToolResultContent" && req == "content" && ftype != nil {
					el := ftype
					if sl, ok := ftype.Underlying().(*types.Slice); ok {
						el = sl.Elem()
					}
					viaWire := namedOf(el) != nil && namedOf(el).Obj().Name() == "wireContent"
					c.Check(!viaWire, name+":nested-content-not-via-wireContent", f, nil, "nested blocks are embedded as their own encoding (%s), not re-encoded through wireContent whose text/data members are omitempty", el)
				}
			}
			// nil slices/maps normalised before encoding
			if name == "ImageContent" || name == "AudioContent" || name == "ToolUseContent" {
				norm := false
				for _, w := range Writes(f.Body, false) {
					if cl, ok := ast.Unparen(w.RHS).(*ast.CompositeLit); ok && w.RHS != nil && len(cl.Elts) == 0 {
						g := f.Graph()
						if hasAtom(g.GuardsAt(g.VertexOf(w.Stmt)), func(a Atom) bool { return AtomSaysNil(a, true, func(ast.Expr) bool { return true }) }) {
							norm = true
						}
					}
				}
				c.Check(norm, name+":nil-normalised", f, nil, "a nil data/input value is replaced by an empty one before encoding (no JSON null)")
			}
			if name == "ToolResultContent" {
				okMake := false
				for _, w := range Writes(f.Body, false) {
					if ce, ok := ast.Unparen(w.RHS).(*ast.CallExpr); ok && w.RHS != nil && f.BuiltinName(ce) == "make" {
						okMake = true
					}
				}
				c.Check(okMake, name+":content-array-non-nil", f, nil, "the nested content array is allocated with make (never nil)")
			}
		}
		// list results: required arrays have no omitempty
		lists := map[string]string{"ListToolsResult": "tools", "ListPromptsResult": "prompts", "ListResourcesResult": "resources", "ListResourceTemplatesResult": "resourceTemplates", "ListRootsResult": "roots", "GetPromptResult": "messages", "ReadResourceResult": "contents", "CompletionResultDetails": "values"}
		for typ, key := range lists {
			nt := c.P.LookupType(pM, typ)
			if !c.Check(nt != nil, typ+":exists", nil, nil, "type %s", typ) {
				continue
			}
			st := nt.Underlying().(*types.Struct)
			ok := false
			for i := 0; i < st.NumFields(); i++ {
				k, o := jsonTag(st.Tag(i), st.Field(i).Name())
				if k == key && !o {
					ok = true
				}
			}
			c.Check(ok, typ+":required-"+key, nil, nil, "%s.%s has no omitempty", typ, key)
		}
		// producers
		type prod struct{ fn, field, guardMust string }
		for _, p := range []prod{{"callTool", "Content", ""}, {"getPrompt", "Messages", ""}, {"complete", "Values", ""}} {
			f := c.Fn(pM, "Server", p.fn)
			g := f.Graph()
			ok := false
			for _, w := range Writes(f.Body, false) {
				s, isS := ast.Unparen(w.LHS).(*ast.SelectorExpr)
				if !isS || s.Sel.Name != p.field || w.RHS == nil {
					continue
				}
				cl, isCL := ast.Unparen(w.RHS).(*ast.CompositeLit)
				if !isCL || len(cl.Elts) != 0 {
					continue
				}
				guards := g.GuardsAt(g.VertexOf(w.Stmt))
				// exactly: <result>.<field> == nil  [&& resultType != input_required]
				nilTest := hasAtom(guards, func(a Atom) bool {
					return AtomSaysNil(a, true, func(e ast.Expr) bool {
						sel, ok := ast.Unparen(e).(*ast.SelectorExpr)
						return ok && sel.Sel.Name == p.field
					})
				})
				// the branch condition contains nothing but that nil test, error/nil-result tests and the input-required exclusion
				onlyKnown := true
				if ifs, ok := f.Enclosing(w.Stmt, func(n ast.Node) bool { _, ok := n.(*ast.IfStmt); return ok }).(*ast.IfStmt); ok {
					var leaves []Atom
					splitAtoms(ifs.Cond, true, &leaves)
					for _, a := range leaves {
						if b, isB := a.E.(*ast.BinaryExpr); isB && b.Op == token.LAND {
							continue
						}
						str := exprStr(a.E)
						if _, _, isNil := NilTest(a.E); isNil {
							continue
						}
						if strings.Contains(str, "resultType") && strings.Contains(str, "resultTypeInputRequired") {
							continue
						}
						onlyKnown = false
					}
				}
				ok = nilTest && onlyKnown
				// ... and the normalised value is the one returned: the copy that was patched is assigned back to the result
				// variable on every path to the return (or the patch is applied to the result variable itself)
				root := ast.Unparen(s.X)
				for {
					if sel2, isSel := root.(*ast.SelectorExpr); isSel {
						root = ast.Unparen(sel2.X)
						continue
					}
					break
				}
				base := f.ObjOf(root)
				var resVar types.Object
				for _, r := range f.Returns() {
					if len(r.Results) == 2 {
						if o := f.ObjOf(r.Results[0]); o != nil {
							resVar = o
						}
					}
				}
				back := base != nil && base == resVar
				if !back && base != nil && resVar != nil {
					v := g.VertexOf(w.Stmt)
					back, _ = g.MustPass(v, g.Exits, func(u int) bool {
						as, isAs := g.Node(u).(*ast.AssignStmt)
						if !isAs || len(as.Lhs) != 1 || len(as.Rhs) != 1 || f.ObjOf(as.Lhs[0]) != resVar {
							return false
						}
						rhs := ast.Unparen(as.Rhs[0])
						if u, isU := rhs.(*ast.UnaryExpr); isU && u.Op == token.AND {
							rhs = ast.Unparen(u.X)
						}
						return f.ObjOf(rhs) == base
					})
				}
				c.Check(back, p.fn+":normalised-copy-is-returned", f, w.Stmt, "the value whose nil %s was replaced is the one handed back (a patched copy that is then dropped sends null after all)", p.field)
			}
			if !ok {
				// delegated: the empty array is installed by a literal handed to a helper together with the nil test of the
				// field (`h(res, res.Content == nil, func(r) { r.Content = []Content{} })`) — what the helper makes of the two is
				// beyond this rule
				delegated := false
				for _, l := range f.AllLits() {
					for _, w := range Writes(l.Body, false) {
						s2, isS := ast.Unparen(w.LHS).(*ast.SelectorExpr)
						cl, isCL := ast.Unparen(w.RHS).(*ast.CompositeLit)
						if w.RHS == nil || !isS || s2.Sel.Name != p.field || !isCL || len(cl.Elts) != 0 {
							continue
						}
						if call, isCall := l.Parent.ParentOf(l.Lit).(*ast.CallExpr); isCall {
							for _, a := range call.Args {
								if x, twn, isNil := NilTest(a); isNil && twn {
									if sel, isSel := ast.Unparen(x).(*ast.SelectorExpr); isSel && sel.Sel.Name == p.field {
										delegated = true
									}
								}
							}
						}
					}
				}
				if delegated {
					c.Undecided(p.fn+":nil-"+p.field+"-normalised", f, nil, "the replacement of a nil %s is delegated to a helper that receives the nil test and the assignment as arguments: not decided here", p.field)
					continue
				}
			}
			c.Check(ok, p.fn+":nil-"+p.field+"-normalised", f, nil, "%s replaces a nil %s by an empty array exactly when it is nil (and the result is not an input-required one): a wider or different condition lets \"%s\":null onto the wire", p.fn, p.field, strings.ToLower(p.field))
		}
		rr := c.Fn(pM, "Server", "readResource")
		rg := rr.Graph()
		okRR := false
		for _, r := range rr.Returns() {
			if len(r.Results) == 2 && !isNilIdent(r.Results[1]) {
				if hasAtom(rg.GuardsAt(rg.VertexOf(r)), func(a Atom) bool {
					return AtomSaysNil(a, true, func(e ast.Expr) bool {
						s, ok := ast.Unparen(e).(*ast.SelectorExpr)
						return ok && s.Sel.Name == "Contents"
					})
				}) {
					okRR = true
				}
			}
		}
		c.Check(okRR, "readResource:nil-contents-rejected", rr, nil, "a read handler returning nil contents is rejected instead of being sent as null")
		for _, fn := range []string{"listTools", "listPrompts", "listResources", "listResourceTemplates"} {
			f := c.Fn(pM, "Server", fn)
			ok := false
			for _, l := range f.AllLits() {
				for _, w := range Writes(l.Body, false) {
					if _, nonNil := l.emptySlice(w.RHS); nonNil {
						lg := l.Graph()
						if lg.VertexOf(w.Stmt) == lg.Entry {
							ok = true
						}
					}
				}
			}
			c.Check(ok, fn+":empty-array-first", f, nil, "the page setter starts by assigning an empty (non-nil) array")
		}
		lr := c.Fn(pM, "Client", "listRoots")
		okLR := false
		for _, w := range Writes(lr.Body, false) {
			if cl, isCL := ast.Unparen(w.RHS).(*ast.CompositeLit); isCL && w.RHS != nil && len(cl.Elts) == 0 {
				okLR = true
			}
		}
		c.Check(okLR, "listRoots:nil-normalised", lr, nil, "roots/list never returns a null array")
	})

	c.Rule("R-C19-5", "wire decoding of MCP values is case-sensitive: no encoding/json decode into a struct-bearing target in the protocol packages", func() {
		n, nStruct := 0, 0
		for _, rel := range []string{pM, pJ, "jsonrpc"} {
			if c.P.Pkg(rel) == nil {
				continue
			}
			for _, f := range c.funcsWithLits(rel) {
				for _, call := range f.AllCalls(f.Body, false) {
					fn := f.Callee(call)
					if fn == nil || fn.Pkg() == nil || fn.Pkg().Path() != "encoding/json" {
						continue
					}
					var target ast.Expr
					switch fn.FullName() {
					case "encoding/json.Unmarshal":
						target = call.Args[1]
					case "(*encoding/json.Decoder).Decode":
						target = call.Args[0]
					default:
						continue
					}
					n++
					t := f.TypeOf(target)
					has := typeHasStruct(t, map[types.Type]bool{}, 0)
					if has {
						nStruct++
					}
					c.Check(!has, "encoding/json-decode:"+f.Name()+":"+exprStr(target), f, call, "encoding/json matches struct fields case-insensitively; target %s %s", t, map[bool]string{true: "contains struct fields: use internal/json (DontMatchCaseInsensitiveStructFields)", false: "has no struct fields"}[has])
				}
			}
		}
		if n == 0 {
			c.Ok("encoding/json-decode:none", nil, nil, "no encoding/json decode call in the protocol packages")
		}
		// positive population: the case-sensitive decoder is what the protocol code uses
		ij := c.FnObj(pIJ, "", "Unmarshal")
		m := 0
		for _, rel := range []string{pM, pJ} {
			for _, f := range c.funcsWithLits(rel) {
				m += len(f.CallsIn(f.Body, ij, false))
			}
		}
		c.Pin("internal/json.Unmarshal call sites", m, 30)
		nd := c.Fn(pIJ, "", "NewDecoder")
		okCS := false
		for _, call := range nd.AllCalls(nd.Body, false) {
			if fn := nd.Callee(call); fn != nil && fn.Name() == "DontMatchCaseInsensitiveStructFields" {
				okCS = true
			}
		}
		c.Check(okCS, "internal/json:case-sensitive", nd, nil, "internal/json decoders call DontMatchCaseInsensitiveStructFields")
	})

	c.Rule("R-C19-6", "framing carries any payload unchanged: SSE events are one data line closed by a blank line and read without a line-length limit; ndjson writes append exactly one newline under the write lock; encoders do not HTML-escape", func() {
		we := c.Fn(pM, "", "writeEvent")
		var seq []string
		for _, call := range we.AllCalls(we.Body, false) {
			fn := we.Callee(call)
			if fn == nil {
				continue
			}
			if fn.Name() == "WriteString" {
				if s, ok := we.ConstString(call.Args[0]); ok {
					seq = append(seq, s)
				}
			}
			if fn.Name() == "Write" && strings.Contains(exprStr(call.Args[0]), "Data") {
				seq = append(seq, "<payload>")
			}
		}
		// (other fields — event, id, retry — may be written in front of it in any fashion; the record ends with the data line)
		tail := seq
		if len(tail) > 3 {
			tail = tail[len(tail)-3:]
		}
		nData := 0
		for _, x := range seq {
			if x == "data: " {
				nData++
			}
		}
		c.Check(strings.Join(tail, "|") == "data: |<payload>|\n\n" && nData == 1, "writeEvent:frame", we, nil, "writeEvent emits \"data: \" + payload + blank line (%q)", seq)
		se := c.Fn(pM, "", "scanEvents")
		bounded := ""
		ast.Inspect(se.Body, func(n ast.Node) bool {
			if call, ok := n.(*ast.CallExpr); ok {
				if fn := se.Callee(call); fn != nil && fn.FullName() == "bufio.NewScanner" {
					bounded = se.At(call)
				}
			}
			return true
		})
		okRB := false
		ast.Inspect(se.Body, func(n ast.Node) bool {
			if call, ok := n.(*ast.CallExpr); ok {
				if fn := se.Callee(call); fn != nil && (fn.FullName() == "(*bufio.Reader).ReadBytes" || fn.FullName() == "(*bufio.Reader).ReadString") {
					okRB = true
				}
			}
			return true
		})
		for _, g0 := range c.pkgClosure(se) {
			ast.Inspect(g0.Body, func(n ast.Node) bool {
				if call, ok := n.(*ast.CallExpr); ok {
					if fn := g0.Callee(call); fn != nil {
						switch fn.FullName() {
						case "bufio.NewScanner":
							bounded = g0.At(call)
						case "(*bufio.Reader).ReadBytes", "(*bufio.Reader).ReadString":
							okRB = true
						}
					}
				}
				return true
			})
		}
		// ReadSlice / ReadLine stop at the reader's buffer size: a line longer than that comes back as ErrBufferFull /
		// isPrefix, and code that does not look at that signal has a line limit just like a Scanner
		if bounded == "" && !okRB {
			usesSlice, handlesFull, usesLine, handlesPrefix := "", false, "", false
			for _, g0 := range c.pkgClosure(se) {
				ast.Inspect(g0.Body, func(n ast.Node) bool {
					switch x := n.(type) {
					case *ast.SelectorExpr:
						if o := g0.ObjOf(x.Sel); o != nil && o.Pkg() != nil && o.Pkg().Path() == "bufio" && o.Name() == "ErrBufferFull" {
							handlesFull = true
						}
					case *ast.AssignStmt:
						if len(x.Rhs) == 1 {
							if call, ok := ast.Unparen(x.Rhs[0]).(*ast.CallExpr); ok {
								if fn := g0.Callee(call); fn != nil && fn.FullName() == "(*bufio.Reader).ReadLine" {
									usesLine = g0.At(call)
									if len(x.Lhs) == 3 {
										if id, isID := x.Lhs[1].(*ast.Ident); isID && id.Name != "_" {
											handlesPrefix = true
										}
									}
								}
							}
						}
					case *ast.CallExpr:
						if fn := g0.Callee(x); fn != nil && fn.FullName() == "(*bufio.Reader).ReadSlice" {
							usesSlice = g0.At(x)
						}
					}
					return true
				})
			}
			if usesSlice != "" && !handlesFull {
				bounded = usesSlice + " (ReadSlice without a test for bufio.ErrBufferFull)"
			}
			if usesLine != "" && !handlesPrefix {
				bounded = usesLine + " (ReadLine ignoring isPrefix)"
			}
		}
		if bounded == "" && !okRB {
			c.Undecided("scanEvents:unbounded-lines", se, nil, "lines are read by something other than ReadBytes/ReadString and not by a bufio.Scanner (ReadSlice/ReadLine with a spill buffer?): whether lines of any length survive is not decided here")
		} else {
			c.Check(bounded == "" && okRB, "scanEvents:unbounded-lines", se, nil, "the SSE reader reads lines of any length (bufio.Reader.ReadBytes); a bufio.Scanner (64 KiB token limit) would turn every large message into a dead stream %s", bounded)
		}
		iw := c.Fn(pM, "ioConn", "Write")
		g := iw.Graph()
		enc := c.FnObj(pJ, "", "EncodeMessage")
		nl := 0
		for _, w := range Writes(iw.Body, false) {
			if ce, ok := ast.Unparen(w.RHS).(*ast.CallExpr); ok && w.RHS != nil && iw.BuiltinName(ce) == "append" && len(ce.Args) == 2 && exprStr(ce.Args[1]) == "'\\n'" {
				nl++
				c.Check(iw.heldLocal(w.Stmt)["ioConn.writeMu"], "ioConn.Write:newline-under-lock#"+itoa(nl), iw, w.Stmt, "the delimiter is appended with writeMu held")
			}
		}
		// frames of concurrent writers do not interleave: the bytes go out while the writer's lock is held
		for i, call := range iw.AllCalls(iw.Body, false) {
			if sel, ok := ast.Unparen(call.Fun).(*ast.SelectorExpr); ok && sel.Sel.Name == "Write" && iw.IsField(sel.X, c.Field(pM, "ioConn", "rwc")) {
				c.Check(iw.heldLocal(call)["ioConn.writeMu"], "ioConn.Write:bytes-written-under-lock#"+itoa(i), iw, call, "rwc.Write runs with writeMu held")
			}
		}
		sw := c.Fn(pM, "sseServerConn", "Write")
		weObj := c.FnObj(pM, "", "writeEvent")
		nsw := 0
		for _, call := range sw.CallsIn(sw.Body, weObj, false) {
			nsw++
			c.Check(sw.heldLocal(call)["SSEServerTransport.mu"], "sseServerConn.Write:event-written-under-lock", sw, call, "writeEvent runs with the transport's mutex held (held: %v): two responses written at once would otherwise interleave their event lines", keysOf(sw.heldLocal(call)))
		}
		c.Pin("sseServerConn.Write event writes", nsw, 1)
		ev := g.callVertices(enc)
		c.Check(nl >= 1 && len(ev) == 1, "ioConn.Write:one-newline-per-message", iw, nil, "each encoded message gets exactly one '\\n' appended (%d append sites across the three write paths)", nl)
		// per write path: what was encoded is written, after exactly one delimiter was appended to it
		mm := c.FnObj(pM, "", "marshalMessages")
		rwcF := c.Field(pM, "ioConn", "rwc")
		nPath := 0
		for _, ecall := range iw.AllCalls(iw.Body, false) {
			if !iw.IsCallTo(ecall, enc) && !iw.IsCallTo(ecall, mm) {
				continue
			}
			as, isAs := iw.ParentOf(ecall).(*ast.AssignStmt)
			if !isAs || len(as.Lhs) != 2 {
				continue
			}
			nPath++
			d, eerr := iw.ObjOf(as.Lhs[0]), iw.ObjOf(as.Lhs[1])
			evx := g.VertexOf(ecall)
			// the buffer and the locals it is handed on to by plain copies (the parameter of an expanded helper)
			bufs := map[types.Object]bool{d: true}
			for changed := true; changed; {
				changed = false
				for _, w := range Writes(iw.Body, false) {
					if w.RHS == nil {
						continue
					}
					if id, isID := ast.Unparen(w.RHS).(*ast.Ident); isID && bufs[iw.ObjOf(id)] {
						if o := iw.ObjOf(w.LHS); o != nil && !bufs[o] {
							if _, lhsID := ast.Unparen(w.LHS).(*ast.Ident); lhsID {
								bufs[o] = true
								changed = true
							}
						}
					}
				}
			}
			isWrite := func(v int) bool {
				for _, call := range iw.AllCalls(g.Node(v), false) {
					if sel, ok := ast.Unparen(call.Fun).(*ast.SelectorExpr); ok && sel.Sel.Name == "Write" && iw.IsField(sel.X, rwcF) && len(call.Args) == 1 && bufs[iw.ObjOf(call.Args[0])] {
						return true
					}
				}
				return false
			}
			isNL := func(v int) bool {
				for _, w := range Writes(g.Node(v), false) {
					if ce, ok := ast.Unparen(w.RHS).(*ast.CallExpr); ok && w.RHS != nil && bufs[iw.ObjOf(w.LHS)] && iw.BuiltinName(ce) == "append" && len(ce.Args) == 2 && bufs[iw.ObjOf(ce.Args[0])] && exprStr(ce.Args[1]) == "'\\n'" {
						return true
					}
				}
				return false
			}
			var wvs, nls []int
			for v := 0; v < g.N; v++ {
				if g.Node(v) != nil && isWrite(v) {
					wvs = append(wvs, v)
				}
				if g.Node(v) != nil && isNL(v) {
					nls = append(nls, v)
				}
			}
			ok := len(wvs) == 1 && len(nls) == 1
			if ok {
				p1, _ := g.MustPass(evx, wvs, isNL)
				ok = p1
				// when encoding succeeded the bytes always reach the stream
				reached := false
				for _, t := range g.edgesWhere(func(a Atom) bool { return AtomSaysNil(a, true, func(e ast.Expr) bool { return iw.ObjOf(e) == eerr }) }) {
					if g.Dominates(evx, t) && !g.writtenBetween(eerr, evx, t) && g.allPathsPass(t, isWrite) {
						reached = true
					}
				}
				ok = ok && reached
			}
			c.Check(ok, "ioConn.Write:encode-delimit-write#"+itoa(nPath), iw, ecall, "the bytes produced here get exactly one '\\n' and are then written to the stream on every path on which encoding succeeded (%d write, %d delimiter sites for this buffer)", len(wvs), len(nls))
		}
		c.Pin("encode→write paths in ioConn.Write", nPath, 3)
		for _, call := range iw.AllCalls(iw.Body, false) {
			if fn := iw.Callee(call); fn != nil && fn.Name() == "Write" && strings.Contains(exprStr(call.Fun), "rwc") {
				c.Check(iw.heldLocal(call)["ioConn.writeMu"], "ioConn.Write:write-under-lock", iw, call, "the stream write happens under writeMu (messages cannot interleave)")
			}
		}
		jm := c.Fn(pJ, "", "jsonMarshal")
		okEsc := false
		for _, call := range jm.AllCalls(jm.Body, false) {
			if fn := jm.Callee(call); fn != nil && fn.Name() == "SetEscapeHTML" && exprStr(call.Args[0]) == "false" {
				okEsc = true
			}
		}
		c.Check(okEsc, "jsonMarshal:no-html-escaping", jm, nil, "the message encoder disables HTML escaping (payload bytes are preserved)")
	})

	c.Rule("R-C19-13", "a payload is never a view into a reader's internal buffer: what bufio.Reader.ReadSlice / ReadLine / Peek or Scanner.Bytes hand out is valid only until the next read, so it (or a sub-slice, trimmed or cut piece of it) is copied before it is stored in a field or collected in a slice — an event that keeps such a view is overwritten by the bytes of the events that follow it", func() {
		borrowed := map[string]bool{"(*bufio.Reader).ReadSlice": true, "(*bufio.Reader).ReadLine": true, "(*bufio.Reader).Peek": true, "(*bufio.Scanner).Bytes": true}
		aliasing := map[string]bool{"bytes.TrimSpace": true, "bytes.TrimRight": true, "bytes.TrimLeft": true, "bytes.Trim": true, "bytes.TrimPrefix": true, "bytes.TrimSuffix": true, "bytes.Cut": true, "bytes.CutPrefix": true, "bytes.CutSuffix": true, "bytes.Fields": true, "bytes.Split": true, "bytes.SplitN": true, "slices.Clip": true}
		// functions of the package whose result is (a view of) a borrowed buffer, to a fixpoint
		viewFns := map[*types.Func]bool{}
		fns := c.funcsWithLits(pM)
		var taintedIn func(f *Func) map[types.Object]bool
		var isView func(f *Func, e ast.Expr, tv map[types.Object]bool) bool
		isView = func(f *Func, e ast.Expr, tv map[types.Object]bool) bool {
			switch x := ast.Unparen(e).(type) {
			case *ast.Ident:
				return tv[f.ObjOf(x)]
			case *ast.SliceExpr:
				return isView(f, x.X, tv)
			case *ast.CallExpr:
				fn := f.Callee(x)
				if fn == nil {
					return false
				}
				if borrowed[fn.FullName()] || viewFns[fn.Origin()] {
					return true
				}
				if aliasing[fn.FullName()] && len(x.Args) > 0 {
					return isView(f, x.Args[0], tv)
				}
			}
			return false
		}
		taintedIn = func(f *Func) map[types.Object]bool {
			tv := map[types.Object]bool{}
			for changed := true; changed; {
				changed = false
				for _, w := range Writes(f.Root().Body, true) {
					o := f.ObjOf(w.LHS)
					if _, isID := ast.Unparen(w.LHS).(*ast.Ident); !isID || o == nil || tv[o] {
						continue
					}
					src := w.RHS
					if src == nil {
						if as, ok := w.Stmt.(*ast.AssignStmt); ok && len(as.Rhs) == 1 {
							// tuple: line, err := r.ReadSlice(..) / before, after, found := bytes.Cut(..): byte-slice results only
							if sl, isSl := f.TypeOf(w.LHS).Underlying().(*types.Slice); isSl {
								if b, isB := sl.Elem().Underlying().(*types.Basic); isB && b.Kind() == types.Uint8 {
									src = as.Rhs[0]
								}
							}
						}
					}
					if src != nil && isView(f, src, tv) {
						tv[o] = true
						changed = true
					}
				}
			}
			return tv
		}
		// mixedFns: functions that hand out a view on some returns and an owned buffer on others (with a flag that says which)
		mixedFns := map[*types.Func]bool{}
		for round := 0; round < 3; round++ {
			for _, f := range fns {
				if f.Lit != nil || f.Obj == nil {
					continue
				}
				tv := taintedIn(f)
				nView, nOwned := 0, 0
				for _, r := range f.Returns() {
					for _, e := range r.Results {
						sl, isSl := f.TypeOf(e).Underlying().(*types.Slice)
						if !isSl {
							continue
						}
						if b, isB := sl.Elem().Underlying().(*types.Basic); !isB || b.Kind() != types.Uint8 {
							continue
						}
						if isView(f, e, tv) {
							nView++
						} else if !isNilIdent(e) {
							nOwned++
						}
					}
				}
				if nView > 0 {
					viewFns[f.Obj.Origin()] = true
					if nOwned > 0 {
						mixedFns[f.Obj.Origin()] = true
					}
				}
			}
		}
		// fromMixed: the view-ness of e hinges on such a function (directly or through locals)
		var fromMixed func(f *Func, e ast.Expr, depth int) bool
		fromMixed = func(f *Func, e ast.Expr, depth int) bool {
			if depth > 4 {
				return false
			}
			switch x := ast.Unparen(e).(type) {
			case *ast.Ident:
				tv := taintedIn(f)
				nView, nOwned := 0, 0
				for _, w := range Writes(f.Root().Body, true) {
					if f.ObjOf(w.LHS) != f.ObjOf(x) || f.ObjOf(x) == nil {
						continue
					}
					src := w.RHS
					if src == nil {
						if as, ok := w.Stmt.(*ast.AssignStmt); ok && len(as.Rhs) == 1 {
							src = as.Rhs[0]
						}
					}
					if src == nil {
						continue
					}
					if fromMixed(f, src, depth+1) {
						return true
					}
					// a variable that is given a view in one place and an owned buffer in another (an expanded helper that
					// returned either, with a flag saying which)
					if isView(f, src, tv) {
						nView++
					} else if !isNilIdent(src) {
						nOwned++
					}
				}
				if nView > 0 && nOwned > 0 {
					return true
				}
			case *ast.SliceExpr:
				return fromMixed(f, x.X, depth+1)
			case *ast.CallExpr:
				if fn := f.Callee(x); fn != nil {
					if mixedFns[fn.Origin()] {
						return true
					}
					if aliasing[fn.FullName()] && len(x.Args) > 0 {
						return fromMixed(f, x.Args[0], depth+1)
					}
				}
			}
			return false
		}
		nSrc, nSink := 0, 0
		for _, f := range fns {
			tv := taintedIn(f)
			if len(tv) == 0 {
				continue
			}
			nSrc++
			c.touch(f)
			for _, w := range Writes(f.Body, false) {
				if w.RHS == nil {
					continue
				}
				// stored in a field (or an element of one)
				lhs := ast.Unparen(w.LHS)
				if ix, isIx := lhs.(*ast.IndexExpr); isIx {
					lhs = ast.Unparen(ix.X)
				}
				if sel, isSel := lhs.(*ast.SelectorExpr); isSel {
					if fv, isF := f.ObjOf(sel.Sel).(*types.Var); isF && fv.IsField() {
						nSink++
						if isView(f, w.RHS, tv) && fromMixed(f, w.RHS, 0) {
							c.Undecided("borrowed-buffer:stored:"+f.Name()+":"+fv.Name(), f, w.Stmt, "%s receives %s, which comes from a function that returns a view of the reader's buffer on some paths and an owned buffer on others: whether this store only sees the owned ones is a flag-dependent fact this rule does not track", exprStr(w.LHS), exprStr(w.RHS))
							continue
						}
						c.Check(!isView(f, w.RHS, tv), "borrowed-buffer:stored:"+f.Name()+":"+fv.Name(), f, w.Stmt, "%s receives a copy, not a view of the reader's buffer (%s)", exprStr(w.LHS), exprStr(w.RHS))
					}
				}
				// collected as an element: x = append(x, view)
				if ce, isC := ast.Unparen(w.RHS).(*ast.CallExpr); isC && f.BuiltinName(ce) == "append" && !ce.Ellipsis.IsValid() {
					for _, a := range ce.Args[1:] {
						if isView(f, a, tv) {
							nSink++
							c.Fail("borrowed-buffer:collected:"+f.Name(), f, w.Stmt, "a view of the reader's buffer (%s) is appended as an element: it changes under the collection at the next read", exprStr(a))
						}
					}
				}
			}
		}
		c.Ok("borrowed-buffer:population", nil, nil, "%d functions handle borrowed reader buffers, %d stores examined (the tree the rule was written for reads with ReadBytes, which allocates: 0 and 0)", nSrc, nSink)
	})

	c.Rule("R-C19-9", "what the peer said survives the transports' own error wrapping and read-ahead: when an error is wrapped together with jsonrpc2.ErrRejected the peer's error comes first (errors.As finds the first *WireError in the chain), and the newline-delimited reader keeps one json.Decoder for the life of the connection (its read-ahead buffer holds the next messages)", func() {
		rej := c.Obj(pJ, "ErrRejected")
		respErr := c.Field(pJ, "Response", "Error")
		n := 0
		for _, f := range c.funcsWithLits(pM) {
			for _, call := range f.AllCalls(f.Body, false) {
				ws := f.ErrorfWraps(call)
				if len(ws) < 2 {
					continue
				}
				ri, pi := -1, -1
				for i, w := range ws {
					if o := f.ObjOf(w); o != nil && sameObj(o, rej) {
						ri = i
					}
					if f.IsField(w, respErr) {
						pi = i
					}
				}
				if ri < 0 || pi < 0 {
					continue
				}
				n++
				c.Check(pi < ri, "wrap-order:"+f.Name(), f, call, "the peer's JSON-RPC error is wrapped before ErrRejected (which is itself a *WireError with code -32005 and no data): errors.As and the re-encoding of the failure then report the peer's code, message and data")
			}
		}
		c.Pin("errors wrapping both a peer error and ErrRejected", n, 1)
		// the peer's error is never flattened to text: wherever Response.Error is an operand of fmt.Errorf it is under %w
		for _, f := range c.funcsWithLits(pM) {
			for _, call := range f.AllCalls(f.Body, false) {
				fn := f.Callee(call)
				if fn == nil || fn.FullName() != "fmt.Errorf" {
					continue
				}
				wrapped := map[ast.Expr]bool{}
				for _, w := range f.ErrorfWraps(call) {
					wrapped[w] = true
				}
				for _, a := range call.Args[1:] {
					if f.IsField(a, respErr) {
						c.Check(wrapped[a], "peer-error-wrapped:"+f.Name(), f, call, "the peer's JSON-RPC error is an operand of %%w (with %%v the caller's errors.As no longer finds it, and code, message and data are lost)")
					}
				}
			}
		}
		// one decoder per connection
		nio := c.Fn(pM, "", "newIOConn")
		nd := c.Std("encoding/json", "", "NewDecoder")
		m := 0
		for _, f := range append([]*Func{nio}, nio.AllLits()...) {
			for _, call := range f.CallsIn(f.Body, nd, false) {
				m++
				inLoop := false
				inspectNoLit(f.Body, func(x ast.Node) {
					switch l := x.(type) {
					case *ast.ForStmt:
						if encloses(l.Body, call) {
							inLoop = true
						}
					case *ast.RangeStmt:
						if encloses(l.Body, call) {
							inLoop = true
						}
					}
				})
				// and it is the decoder the loop decodes from
				dv := f.VarFromCall(nd, 0)
				used := false
				inspectNoLit(f.Body, func(x ast.Node) {
					if l, ok := x.(*ast.ForStmt); ok {
						for _, dc := range f.AllCalls(l.Body, false) {
							if nm, on := f.SelectorOn(dc.Fun, dv); on && nm == "Decode" {
								used = true
							}
						}
					}
				})
				c.Check(!inLoop && used, "ioConn:one-decoder-per-connection", f, call, "json.NewDecoder is called once, outside the read loop that calls Decode on it: a decoder created per message throws away the bytes it read ahead, i.e. every message that arrived in the same Read as its predecessor")
			}
		}
		c.Pin("json.NewDecoder sites in newIOConn", m, 1)
	})

	c.Import("R-C19-10", "stored events are replayed byte for byte: what the in-memory store hands to a resuming stream is a copy taken under its lock, not a view of a backing array that eviction overwrites", "C20", "R-C20-3", func(k string) bool { return strings.HasPrefix(k, "After:copy") })

	c.Rule("R-C19-7", "hand-written conversions between two protocol struct types copy every field the two types share: a composite literal S2{F: x.F, …} built from a value x of another struct type S1 names all fields common to S1 and S2 (custom MarshalJSON/UnmarshalJSON methods and the helpers they call)", func() {
		structOf := func(t types.Type) (*types.Named, *types.Struct) {
			if pt, ok := t.(*types.Pointer); ok {
				t = pt.Elem()
			}
			n, _ := t.(*types.Named)
			if n == nil {
				return nil, nil
			}
			st, _ := n.Underlying().(*types.Struct)
			return n, st
		}
		fieldsOf := func(st *types.Struct) map[string]bool {
			m := map[string]bool{}
			for i := 0; i < st.NumFields(); i++ {
				f := st.Field(i) // embedded fields count too (Meta is embedded with a _meta tag): a literal names them by type
				if tag, _ := jsonTag(st.Tag(i), f.Name()); tag == "-" {
					continue
				}
				m[f.Name()] = true
			}
			return m
		}
		n := 0
		// codec functions only: custom (Un)MarshalJSON methods and the SDK functions they call. Adapters elsewhere (e.g. the
		// client synthesising an InitializeResult from a DiscoverResult) may legitimately carry over a subset.
		codec := map[*Func]bool{}
		var frontier []*Func
		for _, rel := range []string{pM, pJ} {
			for _, f := range c.funcsWithLits(rel) {
				if f.Obj != nil && (f.Obj.Name() == "MarshalJSON" || f.Obj.Name() == "UnmarshalJSON") {
					codec[f] = true
					frontier = append(frontier, f)
				}
			}
		}
		for depth := 0; depth < 3; depth++ {
			var next []*Func
			for _, f := range frontier {
				for _, call := range f.AllCalls(f.Body, true) {
					if fn := f.Callee(call); fn != nil {
						if g := c.P.FuncOf(fn); g != nil && !codec[g] {
							codec[g] = true
							next = append(next, g)
						}
					}
				}
			}
			frontier = next
		}
		for _, rel := range []string{pM, pJ} {
			for _, f := range c.funcsWithLits(rel) {
				if !codec[f.Root()] {
					continue
				}
				inspectNoLit(f.Body, func(x ast.Node) {
					cl, ok := x.(*ast.CompositeLit)
					if !ok || len(cl.Elts) < 2 {
						return
					}
					dstN, dstS := structOf(f.TypeOf(cl))
					if dstS == nil {
						return
					}
					// wire-facing types only: some field carries a json tag
					tagged := false
					for i := 0; i < dstS.NumFields(); i++ {
						if strings.Contains(dstS.Tag(i), "json:") {
							tagged = true
						}
					}
					if !tagged {
						return
					}
					// same-named copies F: x.F, grouped by the source variable
					bySrc := map[types.Object][]string{}
					keys := map[string]bool{}
					for _, e := range cl.Elts {
						kv, isKV := e.(*ast.KeyValueExpr)
						if !isKV {
							return
						}
						k, isId := kv.Key.(*ast.Ident)
						if !isId {
							return
						}
						keys[k.Name] = true
						if sel, isSel := ast.Unparen(kv.Value).(*ast.SelectorExpr); isSel && sel.Sel.Name == k.Name {
							if o := f.ObjOf(sel.X); o != nil {
								bySrc[o] = append(bySrc[o], k.Name)
							}
						}
					}
					for src, copied := range bySrc {
						srcN, srcS := structOf(src.Type())
						if srcS == nil || srcN == dstN || len(copied) < 2 {
							continue
						}
						n++
						var missing []string
						srcF := fieldsOf(srcS)
						for name := range fieldsOf(dstS) {
							if srcF[name] && !keys[name] {
								missing = append(missing, name)
							}
						}
						sort.Strings(missing)
						c.Check(len(missing) == 0, "convert:"+f.Name()+":"+srcN.Obj().Name()+"→"+dstN.Obj().Name(), f, cl, "the %s built from a %s copies %d same-named fields; shared fields not carried over: %v (a dropped field, e.g. _meta, disappears silently from the wire form)", dstN.Obj().Name(), srcN.Obj().Name(), len(copied), missing)
					}
				})
			}
		}
		c.Pin("hand-written struct conversions in codec functions", n, 5)
		// a value conversion copies: whatever is assigned to the source after `*x = T(src)` is lost. In every
		// UnmarshalJSON of the protocol types no field of the converted value is written after the conversion.
		nConv := 0
		for _, f := range c.P.FuncsIn(pM) {
			if f.Obj == nil || f.Obj.Name() != "UnmarshalJSON" || f.Body == nil {
				continue
			}
			g := f.Graph()
			for _, w := range Writes(f.Body, false) {
				st, isStar := ast.Unparen(w.LHS).(*ast.StarExpr)
				if !isStar || w.RHS == nil || f.ObjOf(st.X) != types.Object(f.Recv()) {
					continue
				}
				conv, isCall := ast.Unparen(w.RHS).(*ast.CallExpr)
				if !isCall || len(conv.Args) != 1 {
					continue
				}
				if tv, ok := f.Info().Types[conv.Fun]; !ok || !tv.IsType() {
					continue
				}
				nConv++
				src := canonExpr(f, conv.Args[0])
				after := g.ReachableFrom(g.VertexOf(w.Stmt))
				late := false
				for _, w2 := range Writes(f.Body, false) {
					if w2.Stmt == w.Stmt {
						continue
					}
					if l := canonExpr(f, w2.LHS); (l == src || strings.HasPrefix(l, src+".")) && after[g.VertexOf(w2.Stmt)] {
						late = true
					}
				}
				c.Check(!late, "UnmarshalJSON:"+f.Name()+":nothing-assigned-after-the-conversion", f, w.Stmt, "every field of %s is set before it is converted into the receiver (a later assignment changes only the local copy)", src)
			}
		}
		c.Pin("UnmarshalJSON conversions into the receiver", nConv, 3)

	})

	c.Rule("R-C19-8", "decoding never panics on a JSON null inside a container: in UnmarshalJSON methods and the helpers they call, an element of a decoded map[K]*T or []*T is dereferenced only under a nil test (encoding/json stores nil for a null element)", func() {
		// the decoder functions: every UnmarshalJSON of the protocol packages plus the SDK functions they call (3 levels)
		dec := map[*Func]bool{}
		var frontier []*Func
		for _, rel := range []string{pM, pJ} {
			for _, f := range c.funcsWithLits(rel) {
				if f.Obj != nil && f.Obj.Name() == "UnmarshalJSON" {
					dec[f] = true
					frontier = append(frontier, f)
				}
			}
		}
		for depth := 0; depth < 3; depth++ {
			var next []*Func
			for _, f := range frontier {
				for _, call := range f.AllCalls(f.Body, true) {
					if fn := f.Callee(call); fn != nil {
						if g := c.P.FuncOf(fn); g != nil && !dec[g] {
							dec[g] = true
							next = append(next, g)
						}
					}
				}
			}
			frontier = next
		}
		ptrElem := func(t types.Type) bool {
			switch u := t.Underlying().(type) {
			case *types.Map:
				_, ok := u.Elem().Underlying().(*types.Pointer)
				return ok
			case *types.Slice:
				_, ok := u.Elem().Underlying().(*types.Pointer)
				return ok
			}
			return false
		}
		// derefsUnguarded lists the field selections / explicit dereferences of obj in f that no non-nil test dominates
		derefsUnguarded := func(f *Func, obj types.Object, within ast.Node) []ast.Node {
			var out []ast.Node
			g := f.Graph()
			ast.Inspect(within, func(n ast.Node) bool {
				var base ast.Expr
				switch x := n.(type) {
				case *ast.SelectorExpr:
					if fld, ok := f.ObjOf(x).(*types.Var); ok && fld.IsField() {
						base = x.X
					}
				case *ast.StarExpr:
					base = x.X
				}
				if base == nil || f.ObjOf(base) != obj {
					return true
				}
				v := g.VertexOf(n)
				if v < 0 || !hasAtom(g.GuardsAt(v), func(a Atom) bool { return AtomSaysNil(a, false, func(e ast.Expr) bool { return f.ObjOf(e) == obj }) }) {
					out = append(out, n)
				}
				return true
			})
			return out
		}
		n := 0
		var fs []*Func
		for f := range dec {
			fs = append(fs, f)
		}
		sort.Slice(fs, func(i, j int) bool { return fs[i].Body.Pos() < fs[j].Body.Pos() })
		for _, f := range fs {
			if f.Lit != nil {
				continue
			}
			c.touch(f)
			inspectNoLit(f.Body, func(x ast.Node) {
				rs, ok := x.(*ast.RangeStmt)
				if !ok || rs.Value == nil || !ptrElem(f.TypeOf(rs.X)) {
					return
				}
				v := f.ObjOf(rs.Value)
				if v == nil {
					return
				}
				n++
				bad := derefsUnguarded(f, v, rs.Body)
				// the element handed to another SDK function: that function must test its parameter first
				for _, call := range f.AllCalls(rs.Body, false) {
					fn := f.Callee(call)
					if fn == nil {
						continue
					}
					g := c.P.FuncOf(fn)
					if g == nil {
						continue
					}
					for i, a := range call.Args {
						if f.ObjOf(a) == v && i < len(g.NonRecvParams()) {
							for _, d := range derefsUnguarded(g, g.NonRecvParams()[i], g.Body) {
								bad = append(bad, d)
								_ = d
							}
						}
					}
				}
				where := ""
				if len(bad) > 0 {
					where = c.P.Rel(bad[0].Pos())
				}
				c.Check(len(bad) == 0, "null-element:"+f.Name()+":"+f.FieldPath(rs.X), f, rs, "elements of %s (pointer elements filled by the JSON decoder) are dereferenced only after a nil test; unguarded dereference at %s: a null element makes the decoder panic", types.TypeString(f.TypeOf(rs.X), func(p *types.Package) string { return p.Name() }), where)
			})
		}
		c.Pin("loops over decoded pointer containers in decoders", n, 2)
	})
}

// typeHasStruct reports whether decoding into t can match struct field names.
func typeHasStruct(t types.Type, seen map[types.Type]bool, depth int) bool {
	if t == nil || depth > 8 || seen[t] {
		return false
	}
	seen[t] = true
	switch x := t.(type) {
	case *types.Pointer:
		return typeHasStruct(x.Elem(), seen, depth+1)
	case *types.Named:
		// types with their own UnmarshalJSON decide for themselves
		for i := 0; i < x.NumMethods(); i++ {
			if x.Method(i).Name() == "UnmarshalJSON" {
				return false
			}
		}
		return typeHasStruct(x.Underlying(), seen, depth+1)
	case *types.Alias:
		return typeHasStruct(types.Unalias(x), seen, depth+1)
	case *types.Struct:
		return true
	case *types.Slice:
		return typeHasStruct(x.Elem(), seen, depth+1)
	case *types.Array:
		return typeHasStruct(x.Elem(), seen, depth+1)
	case *types.Map:
		return typeHasStruct(x.Elem(), seen, depth+1)
	case *types.TypeParam:
		return true // unknown instantiation: assume it can be a struct
	}
	return false
}

// typeAssertVar returns the value variable of `x, ok := v.(*rel.name)` in f's own body.
func typeAssertVar(f *Func, rel, name string) types.Object {
	var out types.Object
	inspectNoLit(f.Body, func(n ast.Node) {
		as, ok := n.(*ast.AssignStmt)
		if !ok || len(as.Lhs) != 2 || len(as.Rhs) != 1 {
			return
		}
		if ta, ok := ast.Unparen(as.Rhs[0]).(*ast.TypeAssertExpr); ok && ta.Type != nil && isNamedType(f.TypeOf(ta.Type), modPath+"/"+rel, name) {
			out = f.ObjOf(as.Lhs[0])
		}
	})
	return out
}

// canonExpr renders an expression independently of variable names: selector chains start at the
// root's type, locals are rendered by type, calls by callee name and canonical arguments.
func canonExpr(f *Func, e ast.Expr) string {
	e = ast.Unparen(e)
	if ce, ok := e.(*ast.CallExpr); ok {
		if fn := f.Callee(ce); fn != nil && !(fn.Pkg() != nil && fn.Pkg().Path() == "context") {
			var as []string
			for _, a := range ce.Args {
				as = append(as, canonExpr(f, a))
			}
			return fn.Name() + "(" + strings.Join(as, ", ") + ")"
		}
	}
	return f.FieldPath(e)
}

// returnsInt64ID: some return of f hands out Int64ID(…).
func returnsInt64ID(f *Func) bool {
	for _, r := range f.Returns() {
		for _, e := range r.Results {
			if ce, ok := ast.Unparen(e).(*ast.CallExpr); ok && f.Callee(ce) != nil && f.Callee(ce).Name() == "Int64ID" {
				return true
			}
		}
	}
	return false
}

// comparesWithBackslash: f compares something with the byte or rune '\\'.
func comparesWithBackslash(f *Func) bool {
	found := false
	ast.Inspect(f.Body, func(n ast.Node) bool {
		if _, y, _, ok := binaryCmp2(n); ok {
			if v, isC := f.ConstInt(y); isC && v == '\\' {
				if b, isB := f.TypeOf(y).Underlying().(*types.Basic); isB && (b.Kind() == types.Uint8 || b.Kind() == types.Int32 || b.Kind() == types.UntypedRune) {
					found = true
				}
			}
		}
		return !found
	})
	return found
}

// callsStrconv: f parses with the standard library (any strconv function): then the exact form ParseInt(raw, 10, 64) is
// what is asked for, and ParseUint, Atoi or another bit size is a violation rather than a design this rule cannot judge.
func callsStrconv(f *Func) bool {
	for _, call := range f.AllCalls(f.Body, true) {
		if fn := f.Callee(call); fn != nil && fn.Pkg() != nil && fn.Pkg().Path() == "strconv" {
			return true
		}
	}
	return false
}

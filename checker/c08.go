package main

import (
	"go/ast"
	"go/token"
	"go/types"
	"strings"
)

func init() { register("C08", rulesC08, nil) }

const (
	lkStream = "stream.mu"
	lkConn   = "streamableServerConn.mu"
)

// streamBookkeeping is shared by C02 (every call of a batch is answered), C08 and C10.
func streamBookkeepingRule(c *Ctx) {
	wr := c.Fn(pM, "streamableServerConn", "Write")
	g := wr.Graph()
	streams := c.Field(pM, "streamableServerConn", "streams")
	reqStreams := c.Field(pM, "streamableServerConn", "requestStreams")
	deliver := c.FnObj(pM, "stream", "deliverLocked")
	isValid := c.FnObj(pJ, "ID", "IsValid")
	nS, nR := 0, 0
	// the id of the response being written: third argument of the deliverLocked call
	var respVar types.Object
	for _, v := range g.callVertices(deliver) {
		if dc := wr.CallsIn(g.Node(v), deliver, false); len(dc) == 1 && len(dc[0].Args) >= 3 {
			respVar = wr.ObjOf(dc[0].Args[2])
		}
	}
	c.Need(respVar != nil, "Write: response id variable handed to deliverLocked")
	for _, f := range c.funcsWithLits(pM) {
		for _, call := range f.AllCalls(f.Body, false) {
			if f.BuiltinName(call) != "delete" || len(call.Args) != 2 {
				continue
			}
			root := f.Root()
			switch {
			case f.IsField(call.Args[0], reqStreams):
				nR++
				fg := f.Graph()
				guards := fg.GuardsAt(fg.VertexOf(call))
				ok := root.Obj == wr.Obj && hasAtom(guards, func(a Atom) bool {
					ce, isC := a.E.(*ast.CallExpr)
					if !isC || !a.Val || !f.IsCallTo(ce, isValid) {
						return false
					}
					sel, isS := ast.Unparen(ce.Fun).(*ast.SelectorExpr)
					return isS && f.ObjOf(sel.X) == respVar
				}) && f.ObjOf(call.Args[1]) == respVar
				c.Check(ok, "delete(requestStreams):"+f.Name(), f, call, "a request→stream association is removed only in Write, for the response's own id (guards: %s)", atomsString(guards))
			case f.IsField(call.Args[0], streams):
				nS++
				fg := f.Graph()
				guards := fg.GuardsAt(fg.VertexOf(call))
				switch {
				case root.Obj == wr.Obj && f == wr:
					// only when deliverLocked reported the stream complete
					var doneVar types.Object
					for _, v := range g.callVertices(deliver) {
						if as, ok := g.Node(v).(*ast.AssignStmt); ok && len(as.Lhs) == 2 {
							doneVar = wr.ObjOf(as.Lhs[0])
						}
					}
					ok := doneVar != nil && hasAtom(guards, func(a Atom) bool { return a.Val && wr.ObjOf(a.E) == doneVar }) && wr.heldLocal(call)[lkConn]
					c.Check(ok, "delete(streams):Write", f, call, "a logical stream is forgotten only when deliverLocked reports that all of its requests are answered (guards: %s); dropping it on the first response loses the remaining responses of a batch and makes them unreplayable", atomsString(guards))
				case root.Name() == "(*streamableServerConn).acquireStream":
					// the temp-stream cleanup: a deferred literal registered on the !ok (no live stream) branch
					rg := root.Graph()
					var ds ast.Node
					inspectNoLit(root.Body, func(n ast.Node) {
						if d, isD := n.(*ast.DeferStmt); isD && root.LitOfDefer(d) == f {
							ds = d
						}
					})
					// the comma-ok of the lookup in c.streams
					var found types.Object
					for _, w := range Writes(root.Body, false) {
						if as, isAs := w.Stmt.(*ast.AssignStmt); isAs && len(as.Lhs) == 2 && len(as.Rhs) == 1 {
							if m, _, isIx := indexOf(as.Rhs[0]); isIx && root.IsField(m, streams) {
								found = root.ObjOf(as.Lhs[1])
							}
						}
					}
					ok := ds != nil && found != nil && hasAtom(rg.GuardsAt(rg.VertexOf(ds)), func(a Atom) bool { return !a.Val && root.ObjOf(a.E) == found }) && f.heldLocal(call)[lkConn]
					c.Check(ok, "delete(streams):acquireStream-temp", f, call, "the temporary replay entry is removed (under c.mu) only on the branch that created it")
				default:
					c.Fail("delete(streams):"+f.Name(), f, call, "unexpected removal of a logical stream")
				}
			}
		}
	}
	c.Pin("delete(requestStreams) sites", nR, 1)
	c.Pin("delete(streams) sites", nS, 2)
	// deliverLocked un-tracks the answered request before any return
	dl := c.Fn(pM, "stream", "deliverLocked")
	dg := dl.Graph()
	requests := c.Field(pM, "stream", "requests")
	var delV = -1
	for _, call := range dl.AllCalls(dl.Body, false) {
		if dl.BuiltinName(call) == "delete" && dl.IsField(call.Args[0], requests) {
			delV = dg.VertexOf(call)
		}
	}
	c.Need(delV >= 0, "deliverLocked: delete(s.requests, responseTo)")
	ok := true
	for _, r := range dl.Returns() {
		rv := dg.VertexOf(r)
		// every return is after the accounting decision (the IsValid test that guards the delete)
		if !(dg.ReachableFrom(delV)[rv] || dg.Dominates(delV, rv)) {
			ok = false
		}
	}
	firstCond := dg.condVertices()
	c.Check(ok && len(firstCond) > 0 && dg.Dominates(firstCond[0]-1, delV), "deliverLocked:account-before-any-return", dl, dg.Node(delV), "the response is recorded (request removed from s.requests) before any early return, so completion accounting survives a disconnected stream")
	// the completion criterion itself: "done" implies that no request of the stream is unanswered
	impliesEmpty := func(f *Func, e ast.Expr) bool {
		var atoms []Atom
		splitAtoms(e, true, &atoms)
		return hasAtom(atoms, func(a Atom) bool {
			x, y, op, isCmp := binaryCmp(a.E)
			if !isCmp || !a.Val || op != token.EQL {
				return false
			}
			lc, isCall := ast.Unparen(x).(*ast.CallExpr)
			z, isZ := f.ConstInt(y)
			return isCall && f.BuiltinName(lc) == "len" && f.IsField(lc.Args[0], requests) && isZ && z == 0
		})
	}
	doneRes := dl.NamedResult(0)
	c.Need(doneRes != nil, "deliverLocked: named result done")
	nDone := 0
	for _, w := range dl.writesToVar(dl.Body, doneRes, true) {
		as, isAs := w.(*ast.AssignStmt)
		nDone++
		c.Check(isAs && len(as.Rhs) == 1 && impliesEmpty(dl, as.Rhs[0]) && dg.ReachableFrom(delV)[dg.VertexOf(w)], "deliverLocked:done-means-no-request-left", dl, w, "the stream is reported complete only when, after this response was recorded, s.requests is empty: completing on the first response of a batch drops the other responses")
	}
	c.Pin("assignments to deliverLocked's done result", nDone, 1)
	// the gates of the delivery are exactly what they look like: the response is recorded whenever the message is a
	// response, and the event is written whenever the stream is attached and no status override applies — an additional
	// test on some flag of the stream (its kind, its mode) would drop responses or events of some streams only
	if nl, what := dg.semanticLeaves(delV); true {
		c.Check(nl == 1, "deliverLocked:every-response-is-recorded", dl, dg.Node(delV), "one test (responseTo.IsValid()) guards the removal of the answered request (%d: %s)", nl, what)
	}
	weObj := c.FnObj(pM, "", "writeEvent")
	nWE := 0
	for _, call := range dl.CallsIn(dl.Body, weObj, false) {
		nWE++
		nl, what := dg.semanticLeaves(dg.VertexOf(call))
		c.Check(nl == 0, "deliverLocked:every-message-is-written", dl, call, "inside its own statement nothing but the nil test of the JSON buffer guards the SSE write (%d: %s)", nl, what)
	}
	c.Pin("deliverLocked event writes", nWE, 1)
	for i, r := range dl.Returns() {
		if len(r.Results) == 2 {
			okR := dl.ObjOf(r.Results[0]) == doneRes
			if b, isC := dl.ConstBool(r.Results[0]); isC && !okR {
				// `return true, …` where done is known to be true (and likewise false) says the same
				okR = hasAtom(dg.GuardsAt(dg.VertexOf(r)), func(a Atom) bool { return a.Val == b && dl.ObjOf(a.E) == doneRes })
			}
			c.Check(okR, "deliverLocked:returns-done#"+itoa(i), dl, r, "every return reports the computed completion value")
		}
	}
	// the id whose arrival completes a request is the response's own id
	nResp := 0
	respMsg := typeAssertVar(wr, pJ, "Response")
	for _, w := range wr.writesToVar(wr.Body, respVar, false) {
		as, isAs := w.(*ast.AssignStmt)
		if !isAs || len(as.Rhs) != 1 {
			continue
		}
		nResp++
		nm, on := wr.SelectorOn(as.Rhs[0], respMsg)
		c.Check(on && nm == "ID" && respMsg != nil, "Write:response-id-is-the-response's", wr, w, "the id handed to deliverLocked as 'response to' is the ID of the *Response being written (it is what removes the request from the stream's pending set)")
	}
	c.Pin("assignments of the response id in Write", nResp, 1)
	// completion is signalled: when done, deliverLocked always registers the deferred close of s.done (the POST handler
	// is waiting on it), and in JSON mode the message is buffered and the whole buffer is written on completion
	doneF := c.Field(pM, "stream", "done")
	pendF := c.Field(pM, "stream", "pendingJSONMessages")
	okSig := false
	for _, t := range dg.edgesWhere(func(a Atom) bool { return a.Val && dl.ObjOf(a.E) == doneRes && doneRes != nil }) {
		closesDone := func(v int) bool {
			ds, ok := dg.Node(v).(*ast.DeferStmt)
			if !ok {
				return false
			}
			l := dl.LitOfDefer(ds)
			if l == nil {
				return false
			}
			cl, nl := false, false
			for _, call := range l.AllCalls(l.Body, false) {
				if l.BuiltinName(call) == "close" && l.IsField(call.Args[0], doneF) {
					cl = true
				}
			}
			for _, w := range Writes(l.Body, false) {
				if l.IsField(w.LHS, doneF) && w.RHS != nil && isNilIdent(w.RHS) {
					nl = true
				}
			}
			return cl && nl
		}
		// the first such edge (directly after the done computation) decides
		if dg.allPathsPass(t, closesDone) {
			okSig = true
		}
	}
	c.Check(okSig, "deliverLocked:completion-closes-done", dl, nil, "when the stream is complete, a deferred close(s.done); s.done = nil is always registered: the HTTP exchange that waits on done ends")
	okBuf, okFlush := false, false
	for _, t := range dg.edgesWhere(func(a Atom) bool { return AtomSaysNil(a, false, func(e ast.Expr) bool { return dl.IsField(e, pendF) }) }) {
		buffers := func(v int) bool {
			for _, w := range Writes(dg.Node(v), false) {
				if ap, ok := ast.Unparen(w.RHS).(*ast.CallExpr); ok && w.RHS != nil && dl.IsField(w.LHS, pendF) && dl.BuiltinName(ap) == "append" && len(ap.Args) == 2 && dl.IsField(ap.Args[0], pendF) && dl.ObjOf(ap.Args[1]) == types.Object(dl.NonRecvParams()[0]) {
					return true
				}
			}
			return false
		}
		if dg.allPathsPass(t, buffers) {
			okBuf = true
		}
	}
	// flush: under done, a Write on the response writer of pending[0] or of json.Marshal(pending)
	wF := c.Field(pM, "stream", "w")
	for _, call := range dl.AllCalls(dl.Body, false) {
		sel, isSel := ast.Unparen(call.Fun).(*ast.SelectorExpr)
		if !isSel || sel.Sel.Name != "Write" || !dl.IsField(sel.X, wF) || len(call.Args) != 1 {
			continue
		}
		guards := dg.GuardsAt(dg.VertexOf(call))
		if !hasAtom(guards, func(a Atom) bool { return a.Val && dl.ObjOf(a.E) == doneRes }) || !hasAtom(guards, func(a Atom) bool { return AtomSaysNil(a, false, func(e ast.Expr) bool { return dl.IsField(e, pendF) }) }) {
			continue
		}
		// the argument's sources
		srcOK := 0
		for _, w := range dl.writesToVar(dl.Body, dl.ObjOf(call.Args[0]), false) {
			as, isAs := w.(*ast.AssignStmt)
			if !isAs {
				continue
			}
			if ix, ok := ast.Unparen(as.Rhs[0]).(*ast.IndexExpr); ok && dl.IsField(ix.X, pendF) {
				srcOK++
			}
			if ce, ok := ast.Unparen(as.Rhs[0]).(*ast.CallExpr); ok && dl.Callee(ce) != nil && dl.Callee(ce).Name() == "Marshal" && len(ce.Args) == 1 && dl.IsField(ce.Args[0], pendF) {
				srcOK++
			}
		}
		okFlush = srcOK == 2
	}
	c.Check(okBuf && okFlush, "deliverLocked:json-mode-buffers-and-flushes", dl, nil, "in application/json mode every message is appended to pendingJSONMessages and, on completion, the buffer (its only element, or the array) is written to the response (buffered=%v flushed=%v)", okBuf, okFlush)
	dn := c.Fn(pM, "stream", "doneLocked")
	for i, r := range dn.Returns() {
		c.Check(len(r.Results) == 1 && impliesEmpty(dn, r.Results[0]), "doneLocked:means-no-request-left#"+itoa(i), dn, r, "on resumption a stream counts as complete only when s.requests is empty")
	}
}

func rulesC08(c *Ctx) {
	wr := c.Fn(pM, "streamableServerConn", "Write")
	acq := c.Fn(pM, "streamableServerConn", "acquireStream")
	sp := c.Fn(pM, "streamableServerConn", "servePOST")
	lastIdx := c.Field(pM, "stream", "lastIdx")
	fmtID := c.FnObj(pM, "", "formatEventID")
	writeEv := c.FnObj(pM, "", "writeEvent")
	deliver := c.FnObj(pM, "stream", "deliverLocked")
	esF := c.Field(pM, "streamableServerConn", "eventStore")
	appendM := c.P.StdFunc(modPath+"/"+pM, "EventStore", "Append")
	afterM := c.P.StdFunc(modPath+"/"+pM, "EventStore", "After")
	c.Need(appendM != nil && afterM != nil, "EventStore.Append/After")

	c.Rule("R-C08-1", "Write appends to the event store and then delivers, both inside one critical section of the stream lock; the event id is lastIdx+1 computed under that lock", func() {
		g := wr.Graph()
		av := g.callVertices(appendM)
		dv := g.callVertices(deliver)
		c.Must(len(av) >= 1 && len(dv) >= 1, "Write:append-and-deliver", wr, nil, "Write appends the message to the event store and delivers it")
		c.Need(len(av) == 1 && len(dv) == 1, "Write: one Append and one deliverLocked")
		c.Check(wr.heldLocal(g.Node(av[0]))[lkStream], "Write:append-under-stream-lock", wr, g.Node(av[0]), "eventStore.Append runs with the stream lock held (held: %s); otherwise a resume can replay a message that is then delivered again live with the next id", setString(wr.heldLocal(g.Node(av[0]))))
		c.Check(wr.heldLocal(g.Node(dv[0]))[lkStream], "Write:deliver-under-stream-lock", wr, g.Node(dv[0]), "deliverLocked runs with the stream lock held")
		c.Check(g.ReachableFrom(av[0])[dv[0]] && !g.ReachableFrom(dv[0])[av[0]], "Write:append-before-deliver", wr, g.Node(dv[0]), "the message is stored before it is delivered")
		// the gate of the append is exactly "a store is configured and the protocol is resumable": the conditions that
		// guard the append but not the delivery must all be of these two kinds (a narrower gate, e.g. by response mode,
		// leaves delivered SSE events without a stored copy: they cannot be replayed and later ids shift)
		dGuards := map[string]bool{}
		for _, a := range g.GuardsAt(dv[0]) {
			dGuards[a.String()] = true
		}
		nGate := 0
		for _, a := range g.GuardsAt(av[0]) {
			if dGuards[a.String()] {
				continue
			}
			if b, isB := a.E.(*ast.BinaryExpr); isB && (b.Op == token.LAND || b.Op == token.LOR) {
				continue // its conjuncts are listed separately
			}
			if u, isU := a.E.(*ast.UnaryExpr); isU && u.Op == token.NOT {
				continue // the operand is listed separately with the opposite polarity
			}
			if def, _ := g.boolLocalDef(a.E); def != nil {
				continue // a named condition: the tests it stands for are listed separately
			}
			nGate++
			rec := false
			if x, twn, isNil := NilTest(a.E); isNil && wr.IsField(x, esF) && a.Val != twn {
				rec = true
			}
			if x, y, op, isCmp := binaryCmp(a.E); isCmp && a.Val && op == token.LSS && wr.ObjOf(y) == c.Obj(pM, "protocolVersion20260728") {
				if o := wr.ObjOf(x); o != nil && o == wr.VarFromCall(c.FnObj(pM, "", "protocolVersionFromContext"), 0) {
					rec = true
				}
				if ce, isC := ast.Unparen(x).(*ast.CallExpr); isC && wr.IsCallTo(ce, c.FnObj(pM, "", "protocolVersionFromContext")) {
					rec = true // the version asked for in place
				}
			}
			c.Check(rec, "Write:append-gate#"+itoa(nGate), wr, a.E, "the append is conditional only on eventStore != nil and protocol version < 2026-07-28 (found %s)", a.String())
		}
		c.Pin("conditions that gate the append alone", nGate, 2)
		// no explicit unlock of the stream lock anywhere in Write (it is deferred)
		unl := 0
		for _, call := range wr.AllCalls(wr.Body, false) {
			if op, ok := wr.lockOpOf(call); ok && !op.acquire {
				if sel := ast.Unparen(call.Fun).(*ast.SelectorExpr); wr.lockClassOf(sel.X) == lkStream {
					if _, isDefer := wr.ParentOf(call).(*ast.DeferStmt); !isDefer {
						unl++
					}
				}
			}
		}
		c.Check(unl == 0, "Write:single-critical-section", wr, nil, "the stream lock is released only by the deferred unlock: store and delivery cannot be separated by a window in which acquireStream replays")
		// event id
		n := 0
		for _, call := range wr.CallsIn(wr.Body, fmtID, false) {
			n++
			b, isB := ast.Unparen(call.Args[1]).(*ast.BinaryExpr)
			one := false
			if isB && b.Op == token.ADD {
				if v, ok := wr.ConstInt(b.Y); ok && v == 1 && wr.IsField(b.X, lastIdx) {
					one = true
				}
			}
			v := g.VertexOf(call)
			c.Check(one && wr.heldLocal(call)[lkStream] && !g.ReachableFrom(v)[av[0]] && g.ReachableFrom(v)[dv[0]], "Write:event-id", wr, call, "the event id is formatEventID(s.id, s.lastIdx+1), computed under the lock after the append and before delivery")
			// and it is the value handed to deliverLocked
			dcall := wr.CallsIn(g.Node(dv[0]), deliver, false)[0]
			var idVar types.Object
			if as, ok := wr.ParentOf(call).(*ast.AssignStmt); ok {
				idVar = wr.ObjOf(as.Lhs[0])
			}
			c.Check(idVar != nil && len(dcall.Args) >= 2 && wr.ObjOf(dcall.Args[1]) == idVar, "Write:event-id-delivered", wr, dcall, "that id is the one passed to deliverLocked")
		}
		c.Pin("Write formatEventID", n, 1)
	})

	c.Rule("R-C08-9", eventStoreBoundDoc, func() { ruleEventStoreBound(c) })

	c.Rule("R-C08-2", "stream.lastIdx moves in lock-step with the store: -1 at creation, +1 with every SSE event written, +1 with the stored priming event, and re-based to the replayed position on resume; no other writer", func() {
		roles := map[string]int{}
		for _, f := range c.funcsWithLits(pM) {
			// composite literal initialisation
			inspectNoLit(f.Body, func(n ast.Node) {
				kv, ok := n.(*ast.KeyValueExpr)
				if !ok || f.ObjOf(kv.Key) != types.Object(lastIdx) {
					return
				}
				v, isC := f.ConstInt(kv.Value)
				roles["init"]++
				c.Check(isC && v == -1 && f.Name() == "(*streamableServerConn).newStream", "lastIdx-init:"+f.Name(), f, kv, "a new stream starts at lastIdx = -1 (first event gets index 0)")
			})
			for _, w := range f.FieldWrites(f.Body, lastIdx, false) {
				fg := f.Graph()
				wv := fg.VertexOf(w)
				switch f.Name() {
				case "(*stream).deliverLocked":
					id, isInc := w.(*ast.IncDecStmt)
					next := fg.Node(wv + 1)
					okNext := next != nil && f.ContainsCall(next, writeEv)
					pj := c.Field(pM, "stream", "pendingJSONMessages")
					sse := hasAtom(fg.GuardsAt(wv), func(a Atom) bool { return AtomSaysNil(a, true, func(e ast.Expr) bool { return f.IsField(e, pj) }) })
					roles["deliver"]++
					c.Check(isInc && id.Tok == token.INC && okNext && sse, "lastIdx++:deliverLocked", f, w, "incremented exactly once immediately before each SSE writeEvent, never in JSON mode")
				case "(*streamableServerConn).servePOST":
					id, isInc := w.(*ast.IncDecStmt)
					// paired with Append(..., nil) before and formatEventID(stream.id, stream.lastIdx) after
					okA, okF := false, false
					for _, av := range fg.callVertices(appendM) {
						call := f.CallsIn(fg.Node(av), appendM, false)[0]
						if len(call.Args) == 4 && isNilIdent(call.Args[3]) && fg.Dominates(av, wv) {
							okA = true
						}
					}
					for _, call := range f.CallsIn(f.Body, fmtID, false) {
						if f.IsField(call.Args[1], lastIdx) && fg.Dominates(wv, fg.VertexOf(call)) {
							okF = true
						}
					}
					guards := fg.GuardsAt(wv)
					okG := hasAtom(guards, func(a Atom) bool { return AtomSaysNil(a, false, func(e ast.Expr) bool { return f.IsField(e, esF) }) })
					pre := !reachableFromAnySend(f, fg, c.Field(pM, "streamableServerConn", "incoming"), wv)
					roles["prime"]++
					c.Check(isInc && id.Tok == token.INC && okA && okF && okG && pre, "lastIdx++:servePOST-priming", f, w, "the priming event is stored (Append(…, nil)) and counted together, before its id is formatted and before the stream is published")
				case "(*streamableServerConn).acquireStream":
					as, isAs := w.(*ast.AssignStmt)
					var local types.Object
					if isAs && len(as.Rhs) == 1 {
						local = f.ObjOf(as.Rhs[0])
					}
					roles["resume"]++
					idxParam := f.ParamWhere(func(t types.Type) bool { b, ok := t.(*types.Basic); return ok && b.Kind() == types.Int })
					okLocal := local != nil && idxParam != nil && local == types.Object(idxParam)
					c.Check(okLocal && f.heldLocal(w)[lkStream], "lastIdx=:acquireStream", f, w, "on resume lastIdx is re-based to the local replay cursor, under the stream lock")
					// the replay loop advances that cursor once per replayed event, before formatting its id
					okLoop := false
					inspectNoLit(f.Body, func(n ast.Node) {
						rs, isR := n.(*ast.RangeStmt)
						if !isR || len(f.CallsIn(rs.Body, writeEv, false)) == 0 {
							return
						}
						incs := 0
						var incV int
						for _, w2 := range f.writesToVar(rs.Body, local, false) {
							if id, ok := w2.(*ast.IncDecStmt); ok && id.Tok == token.INC {
								incs++
								incV = fg.VertexOf(w2)
							} else {
								incs += 10
							}
						}
						if incs != 1 {
							return
						}
						good := true
						for _, call := range f.CallsIn(rs.Body, fmtID, false) {
							if f.ObjOf(call.Args[1]) != local || !fg.Dominates(incV, fg.VertexOf(call)) {
								good = false
							}
						}
						// the increment is unconditional within an iteration
						if _, isBlockStmt := f.ParentOf(fg.Node(incV)).(*ast.BlockStmt); !isBlockStmt || f.ParentOf(fg.Node(incV)) != ast.Node(rs.Body) {
							good = false
						}
						// and there is such an id: the event handed to writeEvent gets ID = formatEventID(s.id, cursor), on the
						// sole condition that a store exists (a replayed event without its id cannot be resumed from)
						hasID := false
						for _, call := range f.CallsIn(rs.Body, fmtID, false) {
							as2, isAs2 := f.ParentOf(call).(*ast.AssignStmt)
							if !isAs2 || len(as2.Lhs) != 1 {
								continue
							}
							sel, isSel := ast.Unparen(as2.Lhs[0]).(*ast.SelectorExpr)
							if !isSel || sel.Sel.Name != "ID" {
								continue
							}
							evVar := f.ObjOf(sel.X)
							for _, wc := range f.CallsIn(rs.Body, writeEv, false) {
								if len(wc.Args) == 2 && f.ObjOf(wc.Args[1]) == evVar && evVar != nil && fg.ReachableFrom(fg.VertexOf(call))[fg.VertexOf(wc)] {
									// conditions inside the iteration: only `eventStore != nil`
									loopGuards := map[string]bool{}
									for _, a := range fg.GuardsAt(incV) {
										loopGuards[a.String()] = true
									}
									only := true
									for _, a := range fg.GuardsAt(fg.VertexOf(call)) {
										if loopGuards[a.String()] {
											continue
										}
										if x, twn, isNil := NilTest(a.E); !(isNil && f.IsField(x, esF) && a.Val != twn) {
											only = false
										}
									}
									hasID = only
								}
							}
						}
						okLoop = good && hasID && fg.ReachableFrom(incV)[wv]
					})
					// the same bookkeeping spelled positionally: the loop leaves the cursor alone, numbers the k-th replayed event
					// cursor+1+k, and the cursor is advanced by the number of replayed events before it is stored
					if !okLoop && local != nil {
						inspectNoLit(f.Body, func(n ast.Node) {
							if rs, isR := n.(*ast.RangeStmt); isR && len(f.CallsIn(rs.Body, writeEv, false)) > 0 && c08PositionalReplay(f, fg, rs, local, wv, fmtID, writeEv, esF) {
								okLoop = true
							}
						})
					}
					// what is replayed is everything the store yields after the cursor: each datum of After's sequence is
					// appended to the slice the replay loop ranges over (empty payloads, which stand for the priming event, excepted)
					okAll := false
					inspectNoLit(f.Body, func(n ast.Node) {
						rs, isR := n.(*ast.RangeStmt)
						if !isR {
							return
						}
						ce, isCall := ast.Unparen(rs.X).(*ast.CallExpr)
						if !isCall || !f.IsCallTo(ce, afterM) || rs.Key == nil {
							return
						}
						datum := f.ObjOf(rs.Key)
						for _, w2 := range Writes(rs.Body, false) {
							ap, isAp := ast.Unparen(w2.RHS).(*ast.CallExpr)
							if w2.RHS == nil || !isAp || f.BuiltinName(ap) != "append" || len(ap.Args) != 2 || f.ObjOf(ap.Args[1]) != datum || f.ObjOf(ap.Args[0]) != f.ObjOf(w2.LHS) {
								continue
							}
							buf := f.ObjOf(w2.LHS)
							// the buffer is what the replay loop ranges over
							inspectNoLit(f.Body, func(m ast.Node) {
								if r2, ok := m.(*ast.RangeStmt); ok && f.ObjOf(r2.X) == buf && len(f.CallsIn(r2.Body, writeEv, false)) > 0 {
									okAll = true
								}
							})
							// guards inside the fetch loop: error is nil, payload non-empty — nothing else
							for _, a := range fg.GuardsAt(fg.VertexOf(w2.Stmt)) {
								if hasAtom(fg.GuardsAt(fg.VertexOf(rs.X)), func(b Atom) bool { return b.String() == a.String() }) {
									continue
								}
								if AtomSaysNil(a, true, func(e ast.Expr) bool { return rs.Value != nil && f.ObjOf(e) == f.ObjOf(rs.Value) }) {
									continue
								}
								if x, y, op, isCmp := binaryCmp(a.E); isCmp && a.Val && op == token.GTR {
									if lc, ok := ast.Unparen(x).(*ast.CallExpr); ok && f.BuiltinName(lc) == "len" && f.ObjOf(lc.Args[0]) == datum {
										if z, isZ := f.ConstInt(y); isZ && z == 0 {
											continue
										}
									}
								}
								if b, isB := a.E.(*ast.BinaryExpr); isB && (b.Op == token.LAND || b.Op == token.LOR) {
									continue
								}
								if u, isU := a.E.(*ast.UnaryExpr); isU && u.Op == token.NOT {
									continue
								}
								okAll = false
							}
						}
					})
					c.Check(okAll, "acquireStream:replays-everything-after-the-cursor", f, w, "every payload the store yields after the client's cursor is queued for replay (only the error test and the empty-payload test stand in between)")
					c.Check(okLoop, "lastIdx:replay-cursor", f, w, "the replay loop advances the cursor exactly once per replayed event and formats each replayed id from it, so that the value stored afterwards is the index of the last replayed event (live ids continue from there, not from the client's Last-Event-ID)")
				default:
					c.Fail("lastIdx-writer:"+f.Name(), f, w, "unexpected writer of stream.lastIdx: indices of live delivery, store and replay can drift apart")
				}
			}
		}
		for _, r := range []string{"init", "deliver", "prime", "resume"} {
			c.MustPin("lastIdx role "+r, roles[r], 1, "one of the four places that keep stream.lastIdx in step with the store (initial value, live delivery, priming event, resumption) no longer writes it")
		}
	})

	c.Rule("R-C08-3", "replay and re-attachment are one critical section of the stream lock; the temporary replay entry is registered and removed under the connection lock", func() {
		g := acq.Graph()
		av := g.callVertices(afterM)
		c.Need(len(av) == 1, "acquireStream: EventStore.After")
		c.Check(acq.heldLocal(g.Node(av[0]))[lkStream], "acquireStream:replay-under-stream-lock", acq, g.Node(av[0]), "the store is read with the stream lock held")
		for _, fn := range []string{"w", "done", "lastIdx", "protocolVersion"} {
			fld := c.Field(pM, "stream", fn)
			for _, w := range acq.FieldWrites(acq.Body, fld, false) {
				c.Check(acq.heldLocal(w)[lkStream] && g.ReachableFrom(av[0])[g.VertexOf(w)], "acquireStream:attach-"+fn, acq, w, "s.%s is set under the same lock, after the replay", fn)
			}
		}
		unl := 0
		for _, call := range acq.AllCalls(acq.Body, false) {
			if op, ok := acq.lockOpOf(call); ok && !op.acquire {
				if sel := ast.Unparen(call.Fun).(*ast.SelectorExpr); acq.lockClassOf(sel.X) == lkStream {
					if _, isDefer := acq.ParentOf(call).(*ast.DeferStmt); !isDefer {
						unl++
					}
				}
			}
		}
		c.Check(unl == 0, "acquireStream:single-critical-section", acq, nil, "the stream lock is held from before the replay until return (deferred unlock only): no write can slip between replay and attachment")
		// conflict test inside the span
		wF := c.Field(pM, "stream", "w")
		okConf := false
		for _, cv := range g.condVertices() {
			cond := g.Node(cv - 1).(ast.Expr)
			if len(acq.FieldRefs(cond, wF, false)) > 0 && acq.heldLocal(cond)[lkStream] && g.ReachableFrom(cv)[av[0]] {
				okConf = true
			}
		}
		c.Check(okConf, "acquireStream:conflict-test-under-lock", acq, nil, "the 'already claimed' test (s.w != nil) is made under the stream lock before replaying")
		streams := c.Field(pM, "streamableServerConn", "streams")
		for _, w := range acq.FieldWrites(acq.Body, streams, false) {
			c.Check(acq.heldLocal(w)[lkConn], "acquireStream:temp-registration-under-conn-lock", acq, w, "the temporary entry is registered under c.mu")
		}
	})

	c.Rule("R-C08-4", "stream delivery state is touched only under the stream lock, or by the creating POST before the stream is published, or in constructors", func() {
		var flds []*types.Var
		for _, n := range []string{"w", "done", "lastIdx", "requests", "pendingJSONMessages", "protocolVersion"} {
			flds = append(flds, c.Field(pM, "stream", n))
		}
		inF := c.Field(pM, "streamableServerConn", "incoming")
		n := c.guardedFields("stream-state", flds, lkStream, func(f *Func, sel *ast.SelectorExpr) string {
			if f == sp {
				g := sp.Graph()
				if !reachableFromAnySend(sp, g, inF, g.VertexOf(sel)) {
					return "servePOST before any message of this POST is published (no handler can know the stream yet)"
				}
			}
			return ""
		})
		c.Pin("stream state accesses", n, 25)
	})

	c.Rule("R-C08-5", "event ids are formatted and parsed by agreeing codecs; stream ids cannot contain the separator", func() {
		f := c.Fn(pM, "", "formatEventID")
		sprintf := c.Std("fmt", "", "Sprintf")
		okF := false
		for _, call := range f.CallsIn(f.Body, sprintf, false) {
			if s, ok := f.ConstString(call.Args[0]); ok && s == "%s_%d" && len(call.Args) == 3 && f.ObjOf(call.Args[1]) == types.Object(f.Params()[0]) && f.ObjOf(call.Args[2]) == types.Object(f.Params()[1]) {
				okF = true
			}
		}
		c.Check(okF, "formatEventID:format", f, nil, "id = <stream>_<index>")
		p := c.Fn(pM, "", "parseEventID")
		pg := p.Graph()
		split := c.Std("strings", "", "Split")
		okS := false
		for _, call := range p.CallsIn(p.Body, split, false) {
			if s, ok := p.ConstString(call.Args[1]); ok && s == "_" {
				okS = true
			}
		}
		c.Check(okS, "parseEventID:separator", p, nil, "the parser splits on the formatter's separator")
		for i, r := range p.Returns() {
			if len(r.Results) == 3 && exprStr(r.Results[2]) == "true" {
				guards := pg.GuardsAt(pg.VertexOf(r))
				two := hasAtom(guards, func(a Atom) bool {
					x, y, op, ok := binaryCmp(a.E)
					v, isC := p.ConstInt(y)
					return ok && op == token.NEQ && !a.Val && isC && v == 2 && x != nil
				})
				// idx < 0 rejected: the disjunction `err != nil || idx < 0` was false
				nonneg := hasAtom(guards, func(a Atom) bool {
					if a.Val {
						return false
					}
					found := false
					ast.Inspect(a.E, func(n ast.Node) bool {
						if _, y, op, ok := binaryCmp(asExpr(n)); ok && op == token.LSS {
							if v, isC := p.ConstInt(y); isC && v == 0 {
								found = true
							}
						}
						return true
					})
					return found
				})
				c.Check(two && nonneg, "parseEventID:return#"+itoa(i), p, r, "success only for exactly two parts and a non-negative index (guards: %s)", atomsString(guards))
			}
		}
		// stream ids
		ns := c.FnObj(pM, "streamableServerConn", "newStream")
		n := 0
		for _, fn := range c.funcsWithLits(pM) {
			for _, call := range fn.CallsIn(fn.Body, ns, false) {
				n++
				id := call.Args[2]
				ok := false
				if s, isC := fn.ConstString(id); isC && s == "" {
					ok = true
				}
				if ce, isCe := ast.Unparen(id).(*ast.CallExpr); isCe {
					if cal := fn.Callee(ce); cal != nil && cal.FullName() == "crypto/rand.Text" {
						ok = true // base32 alphabet: no '_'
					}
				}
				c.Check(ok, "newStream-id:"+fn.Name(), fn, call, "logical stream ids are \"\" (standalone) or crypto/rand.Text() (base32, cannot contain '_')")
			}
		}
		c.Pin("newStream call sites", n, 2)
	})

	c.Import("R-C08-9", "the final response stays obtainable: the client's reconnect loop spends one attempt of its budget per failed connection and no more", "C09", "R-C09-5", func(k string) bool { return strings.HasPrefix(k, "connectSSE") })
	c.Import("R-C08-7", "with the default (in-memory) event store a replay is the exact retained suffix after the client's cursor, or an error when part of it was purged — never a partial or aliased answer", "C20", "R-C20-3", nil)
	c.Import("R-C08-8", "what is replayed was framed as one event per message: an event is an optional id line and one data line closed by a blank line", "C19", "R-C19-6", func(k string) bool { return strings.HasPrefix(k, "writeEvent") })

	c.Rule("R-C08-6", "completion bookkeeping: associations and logical streams are dropped exactly when complete", func() { streamBookkeepingRule(c) })
}

// reachableFromAnySend reports whether vertex v can execute after some send on channel field fld.
func reachableFromAnySend(f *Func, g *Graph, fld *types.Var, v int) bool {
	for _, sv := range sendVertices(f, g, fld) {
		if sv == v || g.ReachableFrom(sv)[v] {
			return true
		}
	}
	return false
}

const eventStoreBoundDoc = "resumable streams end with 2026-07-28 (SEP-2575): every write to the event store by the streamable server connection — the priming event of a POST, the append of a written message — sits behind `version < 2026-07-28`; a priming event written for a newer request precedes the HTTP status that the new protocol maps errors to, and the client takes the stream for resumable"

// ruleEventStoreBound is shared by R-C08-9 and R-C07-9 (a shared body rather than an import: C08 already imports from C09,
// which imports from C07).
func ruleEventStoreBound(c *Ctx) {
	esF := c.Field(pM, "streamableServerConn", "eventStore")
	v728 := c.Obj(pM, "protocolVersion20260728")
	n := 0
	for _, f := range c.funcsWithLits(pM) {
		r := f.Root()
		if r.Recv() == nil || namedOf(r.Recv().Type()) == nil || namedOf(r.Recv().Type()).Obj().Name() != "streamableServerConn" {
			continue
		}
		g := f.Graph()
		for _, call := range f.AllCalls(f.Body, false) {
			sel, ok := ast.Unparen(call.Fun).(*ast.SelectorExpr)
			if !ok || !f.IsField(sel.X, esF) {
				continue
			}
			// (the writing uses: replay by After finds nothing where nothing was stored)
			switch sel.Sel.Name {
			case "Open", "Append":
			default:
				continue
			}
			n++
			c.touch(f)
			guards := g.GuardsAt(g.VertexOf(call))
			// named conditions stand for their definitions
			for i := 0; i < len(guards); i++ {
				if _, isID := ast.Unparen(guards[i].E).(*ast.Ident); isID {
					if def := f.valueOf(guards[i].E); def != guards[i].E {
						splitAtoms(def, guards[i].Val, &guards)
					}
				}
			}
			bounded := hasAtom(guards, func(a Atom) bool {
				_, y, op, ok := binaryCmp(a.E)
				if !ok || f.ObjOf(y) != v728 {
					return false
				}
				return (op == token.LSS && a.Val) || (op == token.GEQ && !a.Val)
			})
			// the GET path is entered only for older versions by its caller; accept a dominating refusal of >= 2026-07-28 in
			// the enclosing declared function as well (ReachUnder: with version >= 2026-07-28 the use is unreachable)
			if !bounded {
				reach := g.ReachUnder(func(e ast.Expr) tri {
					_, y, op, ok := binaryCmp(e)
					if !ok || f.ObjOf(y) != v728 {
						return triUnknown
					}
					switch op {
					case token.LSS:
						return triFalse
					case token.GEQ:
						return triTrue
					}
					return triUnknown
				}, nil)
				bounded = !reach[g.VertexOf(call)]
			}
			if !bounded {
				bounded = c.entryRefusesModern(r)
			}
			c.Check(bounded, "event-store-only-below-2026-07-28:"+f.Name()+":"+sel.Sel.Name, f, call, "eventStore.%s is reached only for protocol versions below 2026-07-28 (guards: %s)", sel.Sel.Name, atomsString(guards))
		}
	}
	c.Pin("writes to the event store by streamableServerConn", n, 2)

}

// c08Term is a term of an integer expression in coefficient form: a variable, or the length of a variable.
type c08Term struct {
	obj   types.Object
	isLen bool
}

// c08Root: the variable a local stands for: a local (not a parameter) whose only write is its definition from another
// variable — the copy an expanded helper's parameter leaves — is that variable.
func c08Root(f *Func, obj types.Object, depth int) types.Object {
	v, ok := obj.(*types.Var)
	if !ok || v.IsField() || depth > 4 || f.Root().addressTaken(v) {
		return obj
	}
	for _, p := range f.Root().Params() {
		if p == v {
			return obj
		}
	}
	var def ast.Expr
	n := 0
	for _, w := range Writes(f.Root().Body, true) {
		if f.ObjOf(w.LHS) != obj {
			continue
		}
		n++
		if w.Tok == token.DEFINE {
			def = w.RHS
		}
	}
	if n != 1 || def == nil {
		return obj
	}
	if id, isID := ast.Unparen(def).(*ast.Ident); isID {
		if o, isV := f.ObjOf(id).(*types.Var); isV && !o.IsField() {
			return c08Root(f, o, depth+1)
		}
	}
	return obj
}

// c08Lin: e as Σ coef·v + Σ coef·len(v) + k, over +, - and integer constants.
func c08Lin(f *Func, e ast.Expr) (map[c08Term]int64, int64, bool) {
	e = ast.Unparen(e)
	if v, ok := f.ConstInt(e); ok {
		return map[c08Term]int64{}, v, true
	}
	switch x := e.(type) {
	case *ast.BinaryExpr:
		if x.Op != token.ADD && x.Op != token.SUB {
			return nil, 0, false
		}
		a, ca, ok1 := c08Lin(f, x.X)
		b, cb, ok2 := c08Lin(f, x.Y)
		if !ok1 || !ok2 {
			return nil, 0, false
		}
		sign := int64(1)
		if x.Op == token.SUB {
			sign = -1
		}
		for k, v := range b {
			a[k] += sign * v
			if a[k] == 0 {
				delete(a, k)
			}
		}
		return a, ca + sign*cb, true
	case *ast.Ident:
		if v, ok := f.ObjOf(x).(*types.Var); ok && !v.IsField() {
			return map[c08Term]int64{{c08Root(f, v, 0), false}: 1}, 0, true
		}
	case *ast.CallExpr:
		if f.BuiltinName(x) == "len" && len(x.Args) == 1 {
			if id, isID := ast.Unparen(x.Args[0]).(*ast.Ident); isID {
				if v, ok := f.ObjOf(id).(*types.Var); ok && !v.IsField() {
					return map[c08Term]int64{{c08Root(f, v, 0), true}: 1}, 0, true
				}
			}
		}
	}
	return nil, 0, false
}

// c08PositionalReplay decides the replay bookkeeping of a loop that numbers the replayed events by position: rs ranges
// over the slice S of queued payloads with index k and does not write the cursor; every event id formatted in an
// iteration is cursor+1+k and is the ID of the event handed to writeEvent (on the sole condition that a store exists);
// and the only write of the cursor is `cursor += len(S)` after the loop, on every path to the store into stream.lastIdx
// (vertex wv) — so that the stored value is the index of the last replayed event.
func c08PositionalReplay(f *Func, fg *Graph, rs *ast.RangeStmt, cursor types.Object, wv int, fmtID, writeEv *types.Func, esF *types.Var) bool {
	if rs.Key == nil || f.Root().addressTaken(cursor) {
		return false
	}
	if _, isSlice := f.TypeOf(rs.X).Underlying().(*types.Slice); !isSlice {
		return false
	}
	key := f.ObjOf(rs.Key)
	var slice types.Object
	if id, isID := ast.Unparen(rs.X).(*ast.Ident); isID {
		slice = c08Root(f, f.ObjOf(id), 0)
	}
	if key == nil || slice == nil || len(f.writesToVar(rs.Body, key, false)) > 0 {
		return false
	}
	lv := fg.VertexOf(rs.X)
	// ids
	calls := f.CallsIn(rs.Body, fmtID, false)
	if len(calls) == 0 {
		return false
	}
	loopGuards := map[string]bool{}
	for _, a := range fg.GuardsAt(lv) {
		loopGuards[a.String()] = true
	}
	hasID := false
	for _, call := range calls {
		t, k, ok := c08Lin(f, call.Args[1])
		if !ok || k != 1 || len(t) != 2 || t[c08Term{cursor, false}] != 1 || t[c08Term{key, false}] != 1 {
			return false
		}
		// the event that carries the id
		var evVar types.Object
		direct := false
		switch par := f.ParentOf(call).(type) {
		case *ast.KeyValueExpr:
			if kid, isID := par.Key.(*ast.Ident); !isID || kid.Name != "ID" {
				continue
			}
			lit, isLit := f.ParentOf(par).(*ast.CompositeLit)
			if !isLit {
				continue
			}
			switch up := f.ParentOf(lit).(type) {
			case *ast.AssignStmt:
				if len(up.Lhs) == 1 {
					evVar = f.ObjOf(up.Lhs[0])
				}
			case *ast.ValueSpec:
				if len(up.Names) == 1 {
					evVar = f.ObjOf(up.Names[0])
				}
			case *ast.CallExpr:
				direct = f.IsCallTo(up, writeEv) && len(up.Args) == 2 && up.Args[1] == ast.Expr(lit)
			}
		case *ast.AssignStmt:
			if len(par.Lhs) == 1 {
				if sel, isSel := ast.Unparen(par.Lhs[0]).(*ast.SelectorExpr); isSel && sel.Sel.Name == "ID" {
					evVar = f.ObjOf(sel.X)
				}
			}
		}
		carried := direct
		for _, wc := range f.CallsIn(rs.Body, writeEv, false) {
			if len(wc.Args) == 2 && evVar != nil && f.ObjOf(wc.Args[1]) == evVar && fg.ReachableFrom(fg.VertexOf(call))[fg.VertexOf(wc)] {
				carried = true
			}
		}
		if !carried {
			continue
		}
		only := true
		for _, a := range fg.GuardsAt(fg.VertexOf(call)) {
			if loopGuards[a.String()] {
				continue
			}
			if x, twn, isNil := NilTest(a.E); !(isNil && f.IsField(x, esF) && a.Val != twn) {
				only = false
			}
		}
		if only {
			hasID = true
		}
	}
	if !hasID {
		return false
	}
	// the cursor: one write, after the loop, on every path to the store, adding the number of replayed events
	ws := f.writesToVar(f.Body, cursor, true)
	if len(ws) != 1 {
		return false
	}
	as, isAs := ws[0].(*ast.AssignStmt)
	if !isAs || len(as.Lhs) != 1 || len(as.Rhs) != 1 {
		return false
	}
	t, k, ok := c08Lin(f, as.Rhs[0])
	if !ok || k != 0 {
		return false
	}
	switch as.Tok {
	case token.ADD_ASSIGN:
		if len(t) != 1 || t[c08Term{slice, true}] != 1 {
			return false
		}
	case token.ASSIGN:
		if len(t) != 2 || t[c08Term{slice, true}] != 1 || t[c08Term{cursor, false}] != 1 {
			return false
		}
	default:
		return false
	}
	av := fg.VertexOf(as)
	if av < 0 || as.Pos() < rs.End() || !fg.ReachableFrom(lv)[av] || fg.ReachableFrom(av)[av] || !fg.Dominates(av, wv) {
		return false
	}
	// the queue is the same between the loop and the advance
	return !fg.writtenBetween(slice, lv, av)
}

package main

import (
	"fmt"
	"golang.org/x/tools/go/packages"
	"golang.org/x/tools/go/cfg"
	"golang.org/x/tools/go/ssa"
	"golang.org/x/tools/go/ssa/ssautil"
	"golang.org/x/tools/go/callgraph/vta"
	"golang.org/x/tools/go/callgraph/cha"
	"golang.org/x/tools/go/types/typeutil"
)

var _ = cfg.New
var _ = ssa.BuilderMode(0)
var _ = ssautil.AllFunctions
var _ = vta.CallGraph
var _ = cha.CallGraph
var _ = typeutil.Callee

func main() {
	fmt.Println(packages.LoadAllSyntax)
}

// mcpcheck: repository-specific static analyser for modelcontextprotocol/go-sdk.
// See /verif/DESIGN.md. Usage: mcpcheck -property C01 [-tier quick|thorough] [-repo /repo] [-root /verif]
package main

import (
	"flag"
	"fmt"
	"go/types"
	"os"
	"os/exec"
	"sort"
	"strconv"
	"strings"
	"time"
)

type (
	funcObj  = types.Func
	fieldObj = types.Var
	objT     = types.Object
)

type property struct {
	id    string
	rules func(*Ctx)
	// deep rules need the whole-program SSA/VTA graph; run in the thorough tier only.
	deep func(*Ctx)
	// whole: the quick rules themselves need the whole-program load (SSA + VTA call graph).
	whole bool
}

var registry = map[string]*property{}

func register(id string, rules func(*Ctx), deep func(*Ctx)) {
	registry[id] = &property{id: id, rules: rules, deep: deep}
}

func main() {
	prop := flag.String("property", "", "property id (C01..C20) or 'all'")
	tier := flag.String("tier", envOr("VERIF_TIER", "quick"), "quick|thorough")
	repo := flag.String("repo", envOr("VERIF_REPO", "/repo"), "repository root")
	root := flag.String("root", envOr("VERIF_ROOT", "/verif"), "verif root (evidence, known findings)")
	list := flag.Bool("list", false, "print every obligation")
	noEvidence := flag.Bool("no-evidence", false, "do not write evidence (used for mutant runs)")
	explain := flag.String("explain", "", "re-run the obligation recorded in a violation file")
	refactor := flag.String("refactor", "", "apply a behaviour-preserving transformation (rename-locals|shift-lines|swap-operands|invert-if|hoist-init|wrap-else) to the scratch copy given by -repo and exit")
	mutGen := flag.Bool("mutgen", false, "print the systematic mutation sites of the functions the rules analyse (JSON) and exit")
	forceWhole := flag.Bool("whole", false, "type-check the whole program from source (no export data is requested from the go command, so nothing is compiled into the build cache); used for every run on a scratch copy")
	dumpF := flag.Bool("dump-funcs", false, "print the list of SDK functions of the tree (the known-function list of the normaliser) and exit")
	noNorm := flag.Bool("no-normalise", false, "analyse the program as written (do not expand unknown helpers)")
	mutOnly := flag.Bool("mutants", false, "only run the mutant catalogue of the property and report checker sensitivity")
	flag.Parse()
	seed, _ := strconv.ParseInt(envOr("VERIF_SEED", "0"), 10, 64)

	disableNormalise = *noNorm
	if *dumpF {
		disableNormalise = true
		p, err := Load(*repo, false)
		if err != nil {
			fmt.Println(err)
			os.Exit(1)
		}
		dumpFuncs(p)
		os.Exit(0)
	}
	if *refactor != "" {
		disableNormalise = true
		if strings.HasPrefix(*repo, "/repo") {
			fmt.Println("refusing to transform /repo; give a scratch copy")
			os.Exit(2)
		}
		if err := refactorTree(*repo, *refactor); err != nil {
			fmt.Println(err)
			os.Exit(1)
		}
		os.Exit(0)
	}
	if *explain != "" {
		os.Exit(doExplain(*explain, *repo, *root))
	}
	if *mutGen {
		os.Exit(mutgen(*repo, *root))
	}
	if *prop == "" {
		fmt.Println("usage: mcpcheck -property Cxx [-tier quick|thorough]")
		os.Exit(2)
	}
	ids := []string{*prop}
	if *prop == "all" {
		ids = nil
		for id := range registry {
			ids = append(ids, id)
		}
		sort.Strings(ids)
	}
	if *mutOnly {
		rc := 0
		for _, id := range ids {
			s := runMutants(id, *repo, *root)
			for _, d := range s.Detail {
				fmt.Printf("%-8s %-60s %v\n", id, d["mutant"], d["status"])
				if d["status"] == "missed" && d["expect"] != "out-of-reach" {
					rc = 1
				}
				if d["status"] == "detected" {
					for _, r := range d["reports"].([]string) {
						fmt.Printf("           %s\n", r)
					}
				}
			}
			fmt.Printf("%s: %d mutants, %d detected, %d missed, %d skipped\n", id, s.Mutants, s.Detected, s.Missed, s.Skipped)
		}
		os.Exit(rc)
	}
	start := time.Now()
	before := repoStatus(*repo)
	whole := *tier == "thorough" || *forceWhole
	for _, id := range ids {
		if pr := registry[id]; pr != nil && pr.whole {
			whole = true
		}
	}
	p, err := Load(*repo, whole)
	if err != nil {
		fmt.Printf("load failure: %v\n", err)
		for _, id := range ids {
			fmt.Printf("VIOLATION property=%s replay=%s kind=load-failure\n", id, *repo)
		}
		os.Exit(1)
	}
	code := 0
	for _, id := range ids {
		pr := registry[id]
		if pr == nil {
			fmt.Printf("unknown property %s\n", id)
			os.Exit(2)
		}
		t0 := time.Now()
		c := newCtx(p, id, *tier)
		guarded(c, id, func() { pr.rules(c) })
		extra := map[string]any{}
		var sens *sensitivity
		if *tier == "thorough" {
			if pr.deep != nil {
				guarded(c, id, func() { pr.deep(c) })
			}
			cfgs := altConfigs(c, *repo)
			extra["alternate_build_configs"] = cfgs
			if !*noEvidence {
				sens = runMutants(id, *repo, *root)
				if rb := runRefactorings(id, *repo, *root); rb != nil {
					extra["checker_robustness"] = rb
				}
				if sm := runSystematic(c, id, *repo, *root, seed, 36); sm != nil {
					extra["systematic_mutation_sample"] = sm
				}
				if bn := runBenign(id, *repo, *root); bn != nil {
					extra["behaviour_preserving_changes"] = bn
				}
			}
		}
		if *list {
			for _, o := range c.Obls {
				fmt.Printf("  %-9s %-11s %-60s %s  %s\n", o.Rule, o.Verdict, o.Key, o.Pos, o.Detail)
			}
		}
		if *noEvidence {
			n := 0
			known, _ := loadKnown(*root + "/known_findings.json")
			for _, o := range c.Obls {
				isK := false
				for _, k := range known {
					if k.Status == "known" && k.Property == id && k.Rule == o.Rule && k.Key == o.Key {
						isK = true
					}
				}
				if o.Verdict == vViolation && !isK {
					n++
					fmt.Printf("MUTANT-REPORT %s %s %s [%s] %s %s\n", id, o.Rule, o.Key, o.Verdict, o.Pos, o.Detail)
				} else if o.Verdict != vOK && !isK {
					// not a verdict about the property: the rule could not be applied to this tree
					fmt.Printf("MUTANT-UNDECIDED %s %s %s [%s] %s %s\n", id, o.Rule, o.Key, o.Verdict, o.Pos, o.Detail)
				}
			}
			if len(p.normNotes) > 0 {
				fmt.Printf("NORMALISE %s: %d steps (%s ...)\n", id, len(p.normNotes), p.normNotes[0])
			}
			if n > 0 {
				code = 1
			}
			continue
		}
		wall := time.Since(t0).Seconds()
		if len(ids) == 1 {
			wall = time.Since(start).Seconds()
		}
		if rc := c.finish(*root, seed, wall, sens, extra); rc != 0 {
			code = rc
		}
	}
	if after := repoStatus(*repo); after != before {
		fmt.Printf("the check modified %s (git status changed):\n%s\n", *repo, after)
		code = 1
	}
	os.Exit(code)
}

// guarded runs the rule set of a property; a failed anchor lookup or a panic in the code that
// prepares the rules (outside any c.Rule body) is recorded as a failing obligation instead of
// crashing: a crash would print no report and could be mistaken for silence.
func guarded(c *Ctx, id string, body func()) {
	defer func() {
		if r := recover(); r != nil {
			rule := "R-" + id + "-setup"
			c.ruleDocs[rule] = "the anchors shared by the rules of this property resolve"
			if a, ok := r.(anchorErr); ok {
				c.add(rule, "anchor:"+a.what, "", vAnchor, "the construct that carried this guarantee is gone or renamed: "+a.what+" (nothing can be concluded; not a behavioural claim)")
				// a shared anchor is gone: apply the rules that do not read it (partial.go)
				if !c.tolerant && !c.inRule {
					partialRun(c, id, body)
				}
				return
			}
			c.add(rule, "panic", "", vPanic, fmt.Sprint(r))
		}
	}()
	body()
}

func envOr(k, d string) string {
	if v := os.Getenv(k); v != "" {
		return v
	}
	return d
}

func repoStatus(repo string) string {
	out, err := exec.Command("git", "-C", repo, "status", "--short").Output()
	if err != nil {
		return "" // not a git checkout (scratch copy)
	}
	return string(out)
}

func doExplain(path, repo, root string) int {
	b, err := os.ReadFile(path)
	if err != nil {
		fmt.Println(err)
		return 2
	}
	fmt.Println(string(b))
	// Re-run the owning property and print only the matching obligation.
	s := string(b)
	i := strings.Index(s, `"property": "`)
	if i < 0 {
		return 2
	}
	id := s[i+13 : i+16]
	p, err := Load(repo, false)
	if err != nil {
		fmt.Println(err)
		return 1
	}
	pr := registry[id]
	if pr == nil {
		return 2
	}
	c := newCtx(p, id, "quick")
	pr.rules(c)
	rc := 0
	for _, o := range c.Obls {
		if o.Verdict != vOK && strings.Contains(s, `"key": "`+o.Key+`"`) && strings.Contains(s, `"rule": "`+o.Rule+`"`) {
			fmt.Printf("re-run: %s %s %s [%s] %s\n", o.Pos, o.Rule, o.Key, o.Verdict, o.Detail)
			rc = 1
		}
	}
	if rc == 0 {
		fmt.Println("re-run: the obligation is discharged on the current tree")
	}
	return rc
}

# Sourced by every wrapper: pins the toolchain and keeps the go/packages driver from touching /repo/go.mod.
export PATH=/opt/veriftools/go1.26.8/bin:$PATH
export GOTOOLCHAIN=local GOPROXY=off GOSUMDB=off GONOSUMDB='*' GONOSUMCHECK=1
unset GOWORK
export GOFLAGS="-mod=readonly -trimpath"
export VERIF_ROOT="${VERIF_ROOT:-$(cd "$(dirname "${BASH_SOURCE[0]}")" && pwd)}"
export VERIF_REPO="${VERIF_REPO:-/repo}"
